#!/venv/bin/python
"""Engine-free replay of cases against the untouched /repo (run with /venv/bin/python, no z3 needed).
  replay.py --replay <file>     exit 1 and print the disagreement if the recorded counterexample reproduces
  replay.py --batch in out      used by the harness (counterexample confirmation, translator validation)"""
import sys, os, json
HERE = os.path.dirname(os.path.abspath(__file__))
sys.path.insert(0, HERE)
from props import common
common.crysp_plain()


def run_item(it):
    cases = common.load_cases(it['prop'])
    case = common.REGISTRY[it['case']]
    case.symbolic = False
    src = common.ConcSrc(env=it['env'])
    try:
        args = case.mk(it['shape'], src)
    except common.NoClaim:
        return dict(agree=True, impl=['noclaim'], spec=['noclaim'])
    io = common.outcome(case.impl, it['shape'], args)
    if it.get('mode') == 'impl':
        return dict(impl=list(io))
    so = common.outcome(case.spec, it['shape'], args)
    return dict(agree=common.agree(io, so), impl=list(io), spec=list(so))


def main():
    if sys.argv[1] == '--batch':
        items = json.load(open(sys.argv[2]))
        out = []
        for it in items:
            try:
                out.append(run_item(it))
            except BaseException as e:
                out.append(dict(error='%s: %s' % (type(e).__name__, e)))
        json.dump(out, open(sys.argv[3], 'w'))
        return 0
    if sys.argv[1] == '--replay':
        it = json.load(open(sys.argv[2]))
        r = run_item(dict(prop=it['property'], case=it['case'], shape=it['shape'], env=it['env']))
        print(json.dumps(r)[:2000])
        if r.get('agree') is False:
            print('REPRODUCED property=%s case=%s shape=%s' % (it['property'], it['case'], json.dumps(it['shape'], sort_keys=True)))
            return 1
        print('not reproduced')
        return 0
    print(__doc__)
    return 2


if __name__ == '__main__':
    sys.exit(main())
