#!/opt/veriftools/pyvenv/bin/python
"debug one shape: dbg.py PROP CASE JSONSHAPE"
import sys, json, os
sys.path.insert(0, os.path.dirname(os.path.abspath(__file__)))
from symx import harness, core, ir, loader
from props import common
loader.install()
prop, cname, shape = sys.argv[1], sys.argv[2], json.loads(sys.argv[3])
common.load_cases(prop)
case = common.REGISTRY[cname]
src = harness.SymSrc()
case.symbolic = True
args = case.mk(shape, src)
import contextlib
cm = case.stubs(shape) or contextlib.nullcontext()
def body():
    return harness.sym_outcome(case.impl, shape, args), harness.sym_outcome(case.spec, shape, args)
with cm:
    paths = core.explore(body, assumptions=src.assumptions)
def show(v, ind=0):
    if isinstance(v, core.SymInt): return 'Sym[%d..%d]%s' % (v.lo, v.hi, ir.describe(v.n, 4))
    if isinstance(v, core.SymBytes): return 'SB[' + ', '.join(show(x) for x in v) + ']'
    if isinstance(v, (list, tuple)): return '[' + ', '.join(show(x) for x in v) + ']'
    if isinstance(v, dict): return '{' + ', '.join('%s: %s' % (k, show(x)) for k, x in v.items()) + '}'
    return repr(v)
for p in paths[:int(os.environ.get('NP', '3'))]:
    io, so = p.value
    print('PATH pc=', [ir.describe(c, 3) for c in p.pc])
    print(' impl', io[0], show(io[1]) if io[0] == 'ok' else io[1:])
    print(' spec', so[0], show(so[1]) if so[0] == 'ok' else so[1:])
    g = harness.agree_node(io, so)
    print(' goal', ir.describe(g, 5) if g is not None else None)
print(len(paths), 'paths')
case.symbolic = False
print(harness.concrete_check(case, shape, env={}))
