#!/opt/veriftools/pyvenv/bin/python
"debug one shape: dbg.py PROP CASE JSONSHAPE"
import sys, json, os
sys.path.insert(0, os.path.dirname(os.path.abspath(__file__)))
from symx import harness, core, ir, loader
from props import common
loader.install()
prop, cname, shape = sys.argv[1], sys.argv[2], json.loads(sys.argv[3])
common.load_cases(prop)
case = common.REGISTRY[cname]
src = harness.SymSrc()
case.symbolic = True
args = case.mk(shape, src)
import contextlib
cm = case.stubs(shape) or contextlib.nullcontext()
def body():
    return harness.sym_outcome(case.impl, shape, args), harness.sym_outcome(case.spec, shape, args)
with cm:
    paths = core.explore(body, assumptions=src.assumptions)
def show(v, ind=0):
    if isinstance(v, core.SymInt): return 'Sym[%d..%d]%s' % (v.lo, v.hi, ir.describe(v.n, 4))
    if isinstance(v, core.SymBytes): return 'SB[' + ', '.join(show(x) for x in v) + ']'
    if isinstance(v, (list, tuple)): return '[' + ', '.join(show(x) for x in v) + ']'
    if isinstance(v, dict): return '{' + ', '.join('%s: %s' % (k, show(x)) for k, x in v.items()) + '}'
    return repr(v)
for p in paths[:int(os.environ.get('NP', '3'))]:
    io, so = p.value
    print('PATH pc=', [ir.describe(c, 3) for c in p.pc])
    print(' impl', io[0], show(io[1]) if io[0] == 'ok' else io[1:])
    print(' spec', so[0], show(so[1]) if so[0] == 'ok' else so[1:])
    g = harness.agree_node(io, so)
    print(' goal', ir.describe(g, 5) if g is not None else None)
print(len(paths), 'paths')
case.symbolic = False
print(harness.concrete_check(case, shape, env={}))
# locate first differing sub-term
if os.environ.get('DIFF'):
    io, so = paths[0].value
    a = [core.to_n(x, 8) for x in io[1]] if isinstance(io[1], (core.SymBytes, bytes)) else None
    b = [core.to_n(x, 8) for x in so[1]]
    def diff(x, y, depth=0):
        if x is y: return False
        cx, cy = ir.children(x), ir.children(y)
        if x.k != y.k or x.w != y.w or len(cx) != len(cy):
            print('  ' * depth, 'DIFF', ir.describe(x, 3), '|||', ir.describe(y, 3)); return True
        for i, j in zip(cx, cy):
            if i != j:
                if diff(ir.node(i), ir.node(j), depth + 1): return True
        print('  ' * depth, 'DIFF(attrs)', x, x.a if x.k != 'cat' else x.a[:6], '|||', y, y.a if y.k != 'cat' else y.a[:6]); return True
    for x, y in zip(a, b):
        if x is not y:
            diff(x, y); break
if os.environ.get('DIFF2'):
    io, so = paths[0].value
    x = core.to_n(io[1][0], 8); y = core.to_n(so[1][0], 8)
    def top(n):
        while n.k == 'cat':
            n = ir.node([s for s in n.a if s[0] != 'c'][0][0])
        return n
    def dd(x, y, depth=0):
        x, y = top(x), top(y)
        if x is y or depth > 6: return
        print('  '*depth, x, len(ir.children(x)), y, len(ir.children(y)), 'const', x.a[1] if x.k in ('add','xor','and','or') else '', y.a[1] if y.k in ('add','xor','and','or') else '')
        sx, sy = set(ir.children(x)), set(ir.children(y))
        ox, oy = sorted(sx - sy), sorted(sy - sx)
        for i in ox: print('  '*depth, '  only impl:', ir.describe(ir.node(i), 2), dict(x.a[0]).get(i) if x.k=='add' else '')
        for i in oy: print('  '*depth, '  only spec:', ir.describe(ir.node(i), 2), dict(y.a[0]).get(i) if y.k=='add' else '')
        if len(ox) == 1 and len(oy) == 1: dd(ir.node(ox[0]), ir.node(oy[0]), depth + 1)
    dd(x, y)
if os.environ.get('SHOW'):
    n = ir.node(int(os.environ['SHOW']))
    def sh(n, d=0):
        print('  '*d, n, n.a if n.k in ('cat','const','var') else '')
        if d < int(os.environ.get('DEPTH','2')):
            for c in ir.children(n): sh(ir.node(c), d+1)
    sh(n)
if os.environ.get('DIFF3'):
    io, so = paths[0].value
    xs = []; harness.value_nodes(io[1], xs); ys = []; harness.value_nodes(so[1], ys)
    ui = set(n.id for n in ir.uf_apps(xs)); us = set(n.id for n in ir.uf_apps(ys))
    oi, os_ = sorted(ui - us), sorted(us - ui)
    print('uf apps impl-only %d spec-only %d common %d' % (len(oi), len(os_), len(ui & us)))
    def leafargs(n):
        return [ir.describe(ir.node(i), int(os.environ.get('DEPTH', '3'))) for i in n.a[1:]]
    if oi: print('first impl-only', ir.node(oi[0]).a[0], leafargs(ir.node(oi[0])))
    if os_: print('first spec-only', ir.node(os_[0]).a[0], leafargs(ir.node(os_[0])))
def firstdiff(x, y, d=0, maxd=400):
    pad = '  ' * d
    if x is y: return False
    if d > maxd: print(pad, '...'); return True
    if x.k != y.k or x.w != y.w:
        print(pad, 'KIND/WIDTH', ir.describe(x, 3), '|||', ir.describe(y, 3), 'ATTRS', x.a, y.a, [ir.node(s[0]).a for s in x.a if x.k == 'cat' and s[0] != 'c']); return True
    if x.k == 'cat':
        if len(x.a) != len(y.a) or any((a[0] == 'c') != (b[0] == 'c') or a[1:] != b[1:] and a[0] != 'c' for a, b in zip(x.a, y.a)):
            print(pad, 'CAT-SHAPE', [(s if s[0]=='c' else (ir.node(s[0]).k+str(ir.node(s[0]).w), s[1], s[2])) for s in x.a][:8], '|||', [(s if s[0]=='c' else (ir.node(s[0]).k+str(ir.node(s[0]).w), s[1], s[2])) for s in y.a][:8]); return True
        for a, b in zip(x.a, y.a):
            if a != b:
                if a[0] == 'c': print(pad, 'CAT-CONST', a, b); return True
                print(pad, 'cat seg', a[1:], '->'); return firstdiff(ir.node(a[0]), ir.node(b[0]), d + 1)
    if x.k in ('add', 'xor', 'and', 'or'):
        cx = dict(x.a[0]) if x.k == 'add' else {i: 1 for i in x.a[0]}
        cy = dict(y.a[0]) if y.k == 'add' else {i: 1 for i in y.a[0]}
        if x.a[1] != y.a[1]: print(pad, x.k, 'CONST differs', hex(x.a[1]), hex(y.a[1]))
        ox = sorted(i for i in cx if cy.get(i) != cx[i]); oy = sorted(i for i in cy if cx.get(i) != cy[i])
        print(pad, x.k, x.w, 'terms', len(cx), len(cy), 'only-x', len(ox), 'only-y', len(oy))
        if len(ox) != len(oy) or not ox:
            for i in ox[:4]: print(pad, '  x:', cx[i], ir.describe(ir.node(i), 3))
            for i in oy[:4]: print(pad, '  y:', cy[i], ir.describe(ir.node(i), 3))
            return True
        return firstdiff(ir.node(ox[0]), ir.node(oy[0]), d + 1)
    cxs, cys = ir.children(x), ir.children(y)
    if x.k == 'uf' and x.a[0] != y.a[0]: print(pad, 'UF name', x.a[0], y.a[0]); return True
    for i, j in zip(cxs, cys):
        if i != j:
            print(pad, x.k, x.a[0] if x.k == 'uf' else '', 'child ->'); return firstdiff(ir.node(i), ir.node(j), d + 1)
    print(pad, 'attrs differ', x, y); return True
if os.environ.get('DIFF4'):
    io, so = paths[0].value
    xs = []; harness.value_nodes(io[1], xs); ys = []; harness.value_nodes(so[1], ys)
    for a, b in zip(xs, ys):
        if a is not b:
            firstdiff(a, b); break
