#!/usr/bin/env python3
"""seed_eval.py <seed_dir> <PROP> [more PROPs...] : confirm a seeded change (tests pass, demo flips) in a scratch worktree,
then run the named quick checks against /repo with the patch applied and restore /repo."""
import sys, os, subprocess, json, shutil, time
os.environ['VERIF_NO_EVIDENCE'] = '1'       # runs against a patched /repo must not rewrite the evidence files
seed = os.path.abspath(sys.argv[1])
props = sys.argv[2:]
wt = '/tmp/sv-%d' % os.getpid()
PY = '/venv/bin/python'
def run(cmd, cwd=None, timeout=3000):
    p = subprocess.run(cmd, cwd=cwd, stdout=subprocess.PIPE, stderr=subprocess.STDOUT, timeout=timeout)
    return p.returncode, p.stdout.decode(errors='replace')
res = dict(seed=seed)
subprocess.check_call(['git', '-C', '/repo', 'worktree', 'add', '-q', '--detach', wt, 'HEAD'])
try:
    rc0, out0 = run([PY, os.path.join(seed, 'demo.py')], cwd=wt)
    res['demo_unpatched_rc'] = rc0
    rc, out = run(['git', 'apply', os.path.join(seed, 'patch.diff')], cwd=wt)
    res['apply_rc'] = rc
    if rc != 0:
        res['apply_out'] = out[-500:]
    else:
        rc, out = run([PY, '-m', 'pytest', '-q', '-p', 'no:cacheprovider'], cwd=wt)
        res['tests_rc'] = rc
        res['tests_tail'] = out.strip().splitlines()[-1] if out.strip() else ''
        rc1, out1 = run([PY, os.path.join(seed, 'demo.py')], cwd=wt)
        res['demo_patched_rc'] = rc1
        res['demo_patched_tail'] = out1.strip().splitlines()[-3:]
finally:
    subprocess.call(['git', '-C', '/repo', 'worktree', 'remove', '--force', wt])
res['confirmed'] = res.get('demo_unpatched_rc') == 0 and res.get('apply_rc') == 0 and res.get('tests_rc') == 0 and res.get('demo_patched_rc') not in (0, None)
res['checks'] = {}
if res['confirmed']:
    assert subprocess.run(['git', '-C', '/repo', 'status', '--porcelain'], stdout=subprocess.PIPE).stdout.strip() == b'', '/repo not clean'
    subprocess.check_call(['git', '-C', '/repo', 'apply', os.path.join(seed, 'patch.diff')])
    try:
        for p in props:
            t0 = time.time()
            rc, out = run(['/verif/check', p, '--tier', 'quick'], cwd='/verif')
            lines = out.splitlines()
            res['checks'][p] = dict(rc=rc, wall=round(time.time() - t0, 1), violations=sum(1 for l in lines if l.startswith('VIOLATION')),
                                    first=[l[:300] for l in lines if l.startswith('  case=')][:2], summary=lines[-1] if lines else '',
                                    inconclusive=[l[:200] for l in lines if l.startswith('INCONCLUSIVE')][:2])
    finally:
        subprocess.check_call(['git', '-C', '/repo', 'checkout', '--', '.'])
print(json.dumps(res, indent=1))
