#!/usr/bin/env python3
"""seed_keep.py <seed_dir> <name> <PROP> [more PROPs]: evaluate and, when confirmed, keep under /verif/seeded/<name>/"""
import sys, os, subprocess, json, shutil
seed, name, props = sys.argv[1], sys.argv[2], sys.argv[3:]
out = subprocess.run([sys.executable, os.path.join(os.path.dirname(__file__), 'seed_eval.py'), seed] + props, stdout=subprocess.PIPE).stdout.decode()
d = json.loads(out)
print(name, 'confirmed' if d['confirmed'] else 'NOT CONFIRMED', {k: (v['rc'], v['violations'], v['wall']) for k, v in d['checks'].items()})
for k, v in d['checks'].items():
    print('    ', k, (v['first'] or v['inconclusive'] or [v['summary']])[0][:260])
if not d['confirmed']:
    print(json.dumps(d, indent=1)[:1500])
    sys.exit(1)
dst = os.path.join('/verif/seeded', name)
os.makedirs(dst, exist_ok=True)
for f in ('patch.diff', 'demo.py', 'notes.txt'):
    shutil.copy(os.path.join(seed, f), os.path.join(dst, f))
notes = open(os.path.join(seed, 'notes.txt')).read()
meta = dict(id=name, breaks_property=props[0], needs_to_manifest=notes.strip(),
            confirmed=dict(how='scratch worktree of /repo HEAD: demo.py exit 0 unpatched; git apply patch.diff; full pytest suite passes; demo.py exit 1 patched',
                           tests=d.get('tests_tail'), demo_patched=d.get('demo_patched_tail')),
            ran={k: dict(cmd='./check %s --tier quick' % k, exit=v['rc'], violations=v['violations'], wall_s=v['wall'], first=v['first'][:1]) for k, v in d['checks'].items()},
            detected_by=[k for k, v in d['checks'].items() if v['rc'] == 1])
json.dump(meta, open(os.path.join(dst, 'meta.json'), 'w'), indent=1)
