#!/usr/bin/env python3
"""seed_regress.py [ids...]: re-run, for every kept seeded change, the quick checks that are recorded as catching it
(meta.json detected_by) with the patch applied to /repo, and restore /repo.  Prints one line per seed; exit 1 if any is missed."""
import sys, os, json, subprocess, time
os.environ['VERIF_NO_EVIDENCE'] = '1'       # runs against a patched /repo must not rewrite the evidence files
V = os.path.dirname(os.path.dirname(os.path.abspath(__file__)))
ids = sys.argv[1:] or sorted(os.listdir(os.path.join(V, 'seeded')))
bad = 0
assert subprocess.run(['git', '-C', '/repo', 'status', '--porcelain'], stdout=subprocess.PIPE).stdout.strip() == b'', '/repo not clean'
for i in ids:
    d = os.path.join(V, 'seeded', i)
    meta = json.load(open(os.path.join(d, 'meta.json')))
    props = meta.get('detected_by') or [meta['breaks_property']]
    if subprocess.call(['git', '-C', '/repo', 'apply', os.path.join(d, 'patch.diff')]) != 0:
        print(i, 'PATCH DOES NOT APPLY'); bad += 1
        continue
    try:
        out = []
        for p in props:
            t0 = time.time()
            r = subprocess.run([os.path.join(V, 'check'), p, '--tier', 'quick'], cwd=V, stdout=subprocess.PIPE, stderr=subprocess.STDOUT)
            nv = sum(1 for l in r.stdout.decode(errors='replace').splitlines() if l.startswith('VIOLATION'))
            out.append('%s rc=%d violations=%d %.0fs' % (p, r.returncode, nv, time.time() - t0))
            if r.returncode != 1 or nv == 0:
                bad += 1
        print(i, ' | '.join(out), flush=True)
    finally:
        subprocess.check_call(['git', '-C', '/repo', 'checkout', '--', '.'])
sys.exit(1 if bad else 0)
