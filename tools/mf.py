#!/usr/bin/env python3
"""maintain MANIFEST.json: mf.py add ID 'level text' 'level note' 'technique'  |  mf.py na ID 'reason'"""
import json, sys, os
P = os.path.join(os.path.dirname(os.path.dirname(os.path.abspath(__file__))), 'MANIFEST.json')
m = json.load(open(P))
cmd, pid = sys.argv[1], sys.argv[2]
if cmd == 'add':
    text, note, tech = sys.argv[3:6]
    m['checks'] = [c for c in m['checks'] if c['property_id'] != pid]
    c = {"property_id": pid, "quick_cmd": "./check %s --tier quick" % pid, "thorough_cmd": "./check %s --tier thorough" % pid,
         "evidence_file": "evidence/%s.json" % pid, "replay_cmd_template": "./check --replay {path}", "engine": "symx",
         "level_claimed": {"category": "model_checking", "text": text, "design_ref": "DESIGN.md section 5 (%s)" % pid},
         "level_note": note, "technique": tech}
    m['checks'].append(c)
    m['checks'].sort(key=lambda c: c['property_id'])
    m['not_applicable'] = [n for n in m.get('not_applicable', []) if n['property_id'] != pid]
    for e in m['engines']:
        if e['name'] == 'symx' and pid not in e['serves_properties']:
            e['serves_properties'].append(pid)
            e['serves_properties'].sort()
elif cmd == 'na':
    m['checks'] = [c for c in m['checks'] if c['property_id'] != pid]
    m['not_applicable'] = [n for n in m.get('not_applicable', []) if n['property_id'] != pid] + [{"property_id": pid, "reason": sys.argv[3]}]
    m['not_applicable'].sort(key=lambda c: c['property_id'])
json.dump(m, open(P, 'w'), indent=1)
