#!/usr/bin/env python3
"""mutate.py N SEED [file ...]: own mutation smoke test of the checks (exploratory; complements the independently seeded changes).
Random single-point AST mutations of crysp sources in a scratch worktree; mutants that still pass the library's test suite are
run through the quick checks of the properties anchored in that file with VERIF_REPO pointing at the scratch tree (so /repo is
never touched and no evidence is written).  Prints caught / inconclusive / SURVIVED with the diff of each survivor."""
import sys, os, ast, random, subprocess, json, copy, time, difflib
V = os.path.dirname(os.path.dirname(os.path.abspath(__file__)))
WT = '/tmp/mut-wt-%d' % os.getpid()
PY = '/venv/bin/python'
MAP = {
    'crysp/bits.py': ['C07', 'C08'], 'crysp/poly.py': ['C16'], 'crysp/padding.py': ['C09', 'C14'], 'crysp/sha.py': ['C01', 'C04'], 'crysp/md.py': ['C01', 'C17'],
    'crysp/blake.py': ['C11', 'C14'], 'crysp/keccak.py': ['C04'], 'crysp/hmac.py': ['C13'], 'crysp/aes.py': ['C02', 'C03'], 'crysp/des.py': ['C02', 'C03'],
    'crysp/serpent.py': ['C02', 'C03'], 'crysp/threefish.py': ['C02', 'C12'], 'crysp/skein.py': ['C12'], 'crysp/mode.py': ['C05'], 'crysp/salsa20.py': ['C06'],
    'crysp/chacha.py': ['C06'], 'crysp/rc4.py': ['C06'], 'crysp/crc.py': ['C15'], 'crysp/wb.py': ['C18'], 'crysp/tlsh.py': ['C19', 'C10'], 'crysp/nilsimsa.py': ['C19'],
    'crysp/utils/perms.py': ['C20'], 'crysp/utils/knapsack.py': ['C20'], 'crysp/utils/operators.py': ['C03', 'C08'],
}
SWAP = {ast.Add: ast.Sub, ast.Sub: ast.Add, ast.LShift: ast.RShift, ast.RShift: ast.LShift, ast.BitAnd: ast.BitOr, ast.BitOr: ast.BitAnd,
        ast.BitXor: ast.BitOr, ast.Mult: ast.Add, ast.FloorDiv: ast.Mod, ast.Mod: ast.FloorDiv}
CMP = {ast.Lt: ast.LtE, ast.LtE: ast.Lt, ast.Gt: ast.GtE, ast.GtE: ast.Gt, ast.Eq: ast.NotEq, ast.NotEq: ast.Eq}


def points(tree):
    out = []
    for n in ast.walk(tree):
        if isinstance(n, ast.BinOp) and type(n.op) in SWAP:
            out.append((n, 'binop'))
        elif isinstance(n, ast.AugAssign) and type(n.op) in SWAP:
            out.append((n, 'binop'))
        elif isinstance(n, ast.Compare) and len(n.ops) == 1 and type(n.ops[0]) in CMP:
            out.append((n, 'cmp'))
        elif isinstance(n, ast.Constant) and isinstance(n.value, int) and not isinstance(n.value, bool) and 0 <= n.value <= 1 << 64:
            out.append((n, 'const+'))
            if n.value > 0:
                out.append((n, 'const-'))
        elif isinstance(n, ast.BoolOp):
            out.append((n, 'boolop'))
        elif isinstance(n, ast.UnaryOp) and isinstance(n.op, ast.Not):
            out.append((n, 'not'))
        elif isinstance(n, (ast.Expr, ast.AugAssign)) or (isinstance(n, ast.Assign) and isinstance(n.targets[0], (ast.Attribute, ast.Subscript))):
            if not (isinstance(n, ast.Expr) and isinstance(n.value, ast.Constant)):
                out.append((n, 'delstmt'))
        elif isinstance(n, ast.Subscript) and isinstance(n.slice, ast.Slice) and (n.slice.lower is not None or n.slice.upper is not None):
            out.append((n, 'slice'))
        elif isinstance(n, ast.Call) and len(n.args) >= 2 and not n.keywords:
            out.append((n, 'swapargs'))
    return out


def apply(n, kind):
    if kind == 'binop': n.op = SWAP[type(n.op)]()
    elif kind == 'cmp': n.ops = [CMP[type(n.ops[0])]()]
    elif kind == 'const+': n.value += 1
    elif kind == 'const-': n.value -= 1
    elif kind == 'boolop': n.op = ast.Or() if isinstance(n.op, ast.And) else ast.And()
    elif kind == 'not': n.op = ast.UAdd()          # `not x` -> `+x` keeps truthiness flipped only for bools... replaced below
    elif kind == 'delstmt':
        # the statement becomes `pass` (same node object mutated in place so that the tree stays consistent)
        n.__class__ = ast.Pass
        for f in list(n.__dict__):
            if f not in ('lineno', 'col_offset', 'end_lineno', 'end_col_offset'):
                del n.__dict__[f]
    elif kind == 'slice':
        sl = n.slice
        if sl.upper is not None and (sl.lower is None or id(n) % 2):
            sl.upper = ast.BinOp(sl.upper, ast.Add(), ast.Constant(1))
        else:
            sl.lower = ast.BinOp(sl.lower, ast.Add(), ast.Constant(1))
    elif kind == 'swapargs':
        n.args[0], n.args[1] = n.args[1], n.args[0]


def run(cmd, cwd=None, env=None, timeout=1800):
    try:
        p = subprocess.run(cmd, cwd=cwd, env=env, stdout=subprocess.PIPE, stderr=subprocess.STDOUT, timeout=timeout)
        return p.returncode, p.stdout.decode(errors='replace')
    except subprocess.TimeoutExpired:
        return 124, 'timeout'


def main():
    N, seed = int(sys.argv[1]), int(sys.argv[2])
    files = sys.argv[3:] or sorted(MAP)
    rng = random.Random(seed)
    import glob
    for old_wt in glob.glob('/tmp/mut-wt-*'):          # left behind by a killed campaign
        if not os.path.exists('/proc/%s' % old_wt.rsplit('-', 1)[1]):
            subprocess.call(['git', '-C', '/repo', 'worktree', 'remove', '--force', old_wt], stderr=subprocess.DEVNULL)
    subprocess.call(['git', '-C', '/repo', 'worktree', 'prune'])
    subprocess.check_call(['git', '-C', '/repo', 'worktree', 'add', '-q', '--detach', WT, 'HEAD'])
    env = dict(os.environ, VERIF_REPO=WT, VERIF_JOBS=os.environ.get('MUT_JOBS', '8'))
    stats = dict(killed_by_suite=0, caught=0, inconclusive=0, survived=0, broken=0)
    try:
        for k in range(N):
            f = rng.choice(files)
            path = os.path.join(WT, f)
            src = open(os.path.join('/repo', f)).read()
            tree = ast.parse(src)
            pts = [p for p in points(tree) if p[1] != 'not']
            if os.environ.get('MUT_KINDS'):
                pts = [p for p in pts if p[1] in os.environ['MUT_KINDS'].split(',')]
            if not pts:
                continue
            node, kind = rng.choice(pts)
            line = getattr(node, 'lineno', 0)
            before = ast.unparse(node)
            apply(node, kind)
            after = ast.unparse(node)
            # splice textually on the original line only when the fragment is found there; otherwise unparse the whole file
            lines = src.split('\n')
            if kind not in ('delstmt',) and before in lines[line - 1] and lines[line - 1].count(before) == 1:
                lines[line - 1] = lines[line - 1].replace(before, after)
                new = '\n'.join(lines)
            else:
                new = ast.unparse(tree) + '\n'
            try:
                compile(new, f, 'exec')
            except SyntaxError:
                continue
            open(path, 'w').write(new)
            tag = '%s:%d %s  %s  ->  %s' % (f, line, kind, before[:60], after[:60])
            try:
                rc, out = run([PY, '-m', 'pytest', '-q', '-x', '-p', 'no:cacheprovider', '--timeout=300'], cwd=WT, timeout=900)
                if rc != 0:
                    stats['killed_by_suite'] += 1
                    print('suite   ', tag, flush=True)
                    continue
                res = []
                for p in MAP[f]:
                    rc, out = run([os.path.join(V, 'check'), p, '--tier', 'quick'], cwd=V, env=env, timeout=2400)
                    res.append((p, rc))
                    if rc == 1:
                        break
                if any(rc == 1 for _, rc in res):
                    stats['caught'] += 1
                    print('caught  ', tag, res, flush=True)
                elif any(rc not in (0, 1) for _, rc in res):
                    stats['inconclusive'] += 1
                    print('INCONCL ', tag, res, flush=True)
                else:
                    stats['survived'] += 1
                    print('SURVIVED', tag, res, flush=True)
            finally:
                open(path, 'w').write(src)
    finally:
        subprocess.call(['git', '-C', '/repo', 'worktree', 'remove', '--force', WT])
    print(json.dumps(stats))


if __name__ == '__main__':
    main()
