"""C20 - permutation and subset-sum helpers enumerate exactly and answer correctly.
permutk/combink never inspect element values: they run on opaque tagged objects (any comparison would surface), so one run per
length covers every list.  nextperm/exactsum/dynprog branch on data: element values / weights / targets are solver variables and
the engine enumerates every feasible path (solver-driven forking); on each path the result must satisfy the specification."""
import itertools
from props.common import Case, register, MustRaise, NoClaim


class Tag(object):
    "opaque list element: identity only (ordering comparisons raise TypeError, equality is identity)"
    __slots__ = ('i',)

    def __init__(self, i):
        self.i = i


class Positional(Case):
    prop = 'C20'
    name = 'C20.positional'
    bounds = ('permutk(l,k) for |l| in 0..6 and every 0<=k<=|l|: the generated sequence (as arrangements of POSITIONS, elements are opaque) is exactly {l[:k]+p : p in permutations(l[k:])}, each once, '
              'and l is restored; combink(l,p,0) for |l| in 1..6, every 1<=p<=|l| == itertools.combinations in index order; a second call gives the same (function attribute state)')

    def shapes(self, tier):
        for n in range(0, 7):
            for k in range(0, n + 1):
                yield dict(fn='permutk', n=n, k=k)
        for n in range(1, 7):
            for p in range(1, n + 1):
                yield dict(fn='combink', n=n, p=p)

    def mk(self, shape, src):
        return ()

    def impl(self, shape, args):
        from crysp.utils import perms
        n = shape['n']
        l = [Tag(i) for i in range(n)]
        if shape['fn'] == 'permutk':
            out = [[t.i for t in p] for p in perms.permutk(l, shape['k'])]
            return dict(out=out, after=[t.i for t in l])
        a = [[t.i for t in c] for c in perms.combink(l, shape['p'], 0)]
        b = [[t.i for t in c] for c in perms.combink(l, shape['p'], 0)]
        return dict(a=a, b=b, after=[t.i for t in l])

    def spec(self, shape, args):
        n = shape['n']
        if shape['fn'] == 'permutk':
            k = shape['k']
            want = sorted(list(range(k)) + list(p) for p in itertools.permutations(range(k, n)))
            return dict(out=want, after=list(range(n)))
        c = [list(x) for x in itertools.combinations(range(n), shape['p'])]
        return dict(a=c, b=c, after=list(range(n)))


# permutk's order is not specified: compare as sorted multiset
_old = Positional.impl


def _impl(self, shape, args):
    r = _old(self, shape, args)
    if shape['fn'] == 'permutk':
        r['out'] = sorted(r['out'])
    return r


Positional.impl = _impl


def next_lex(a):
    "lexicographic successor of a (multiset permutation), wrapping from the last to the first; comparisons may be symbolic"
    a = list(a)
    n = len(a)
    k = n - 2
    while k >= 0 and not (a[k] < a[k + 1]):
        k -= 1
    if k < 0:
        a.reverse()
        return a
    j = n - 1
    while not (a[k] < a[j]):
        j -= 1
    a[k], a[j] = a[j], a[k]
    a[k + 1:] = a[k + 1:][::-1]
    return a


class NextPerm(Case):
    prop = 'C20'
    name = 'C20.nextperm'
    kind = 'P'
    timeout_s = 600
    max_paths = 20000
    bounds = 'nextperm(l) for |l| in 0..5 (quick) / 0..6 with SYMBOLIC elements in 0..3 (duplicates included): on every feasible path the result is the lexicographic successor (wrap-around from the last to the first), in place'

    def shapes(self, tier):
        for n in range(0, 6 if tier == 'quick' else 7):
            yield dict(n=n)

    def mk(self, shape, src):
        return ([src.int('e%d' % i, 2) for i in range(shape['n'])],)

    def impl(self, shape, args):
        from crysp.utils.perms import nextperm
        l = list(args[0])
        r = nextperm(l)
        return dict(r=list(r), same=r is l)

    def spec(self, shape, args):
        return dict(r=next_lex(list(args[0])), same=True)


class Knapsack(Case):
    prop = 'C20'
    name = 'C20.knapsack'
    kind = 'P'
    timeout_s = 900
    max_paths = 20000
    bounds = ('exactsum(l,s) and dynprog(l,s) for |l| in 1..3 (quick) / 1..4 items with SYMBOLIC weights in 1..4 and SYMBOLIC target 1..sum: the result is a sub-collection of the given items (each used at most '
              'once) whose weights sum to s, failure is reported iff no sub-collection exists, dynprog returns a minimum-cardinality one, and a repeated identical call returns the same answer')

    def shapes(self, tier):
        for fn in ('exactsum', 'dynprog'):
            for n in range(1, 4 if tier == 'quick' else 5):
                yield dict(fn=fn, n=n)

    def mk(self, shape, src):
        n = shape['n']
        w = [src.int('w%d' % i, 3, 1, 4) for i in range(n)]
        s = src.int('s', 5, 1, 4 * n)
        return (w, s)

    def impl(self, shape, args):
        from crysp.utils import knapsack
        w, s = args
        items = [(Tag(i), w[i]) for i in range(len(w))]
        f = getattr(knapsack, shape['fn'])
        r1 = f(items, s)
        r2 = f(items, s)

        def enc(r):
            if r is None or r is False:
                return 'fail'
            if r is True:
                return 'True'
            return sorted(t.i for t, _ in r)
        return dict(first=enc(r1), second=enc(r2))

    def spec(self, shape, args):
        w, s = args
        n = len(w)
        best = None
        # all sub-collections, by increasing cardinality then index order
        subsets = sorted((c for k in range(1, n + 1) for c in itertools.combinations(range(n), k)), key=lambda c: (len(c), c))
        feas = []
        for c in subsets:
            tot = 0
            for i in c:
                tot = tot + w[i]
            if tot == s:                 # forks when symbolic
                feas.append(list(c))
        if not feas:
            return dict(first='fail', second='fail')
        return dict(first=('any', feas), second=('same',))


# the knapsack answer is not unique: agree() must accept any feasible sub-collection -> custom comparison through impl post-processing
_old_k = Knapsack.impl


def _kimpl(self, shape, args):
    r = _old_k(self, shape, args)
    w, s = args
    out = {}
    for key in ('first', 'second'):
        v = r[key]
        if isinstance(v, list):
            tot = 0
            for i in v:
                tot = tot + w[i]
            ok = (len(set(v)) == len(v)) and bool(tot == s)
            out[key] = dict(kind='list', valid=ok, card=len(v) if shape['fn'] == 'dynprog' else None)
        else:
            out[key] = dict(kind=v)
    out['same'] = r['first'] == r['second']
    return out


def _kspec(self, shape, args):
    w, s = args
    n = len(w)
    mincard = None
    for k in range(1, n + 1):
        for c in itertools.combinations(range(n), k):
            tot = 0
            for i in c:
                tot = tot + w[i]
            if tot == s:
                if mincard is None:
                    mincard = k
    if mincard is None:
        v = dict(kind='fail')
        return dict(first=v, second=v, same=True)
    v = dict(kind='list', valid=True, card=mincard if shape['fn'] == 'dynprog' else None)
    return dict(first=v, second=v, same=True)


Knapsack.impl = _kimpl
Knapsack.spec = _kspec

class DynprogWeak(Case):
    """the part of the property dynprog does satisfy (its item reuse is a known finding): every returned couple is one of the given
    items, the weights sum exactly to the target, a repeated call answers the same, and failure is reported exactly when not even a
    collection WITH repetition reaches the target"""
    prop = 'C20'
    name = 'C20.dynprog_sum'
    kind = 'P'
    timeout_s = 900
    max_paths = 20000
    bounds = 'dynprog(l,s), |l| in 1..3 (quick) / 1..4, SYMBOLIC weights 1..4 and target: returned couples are given items, weights sum to s, repeated call equal, None iff no collection with repetition sums to s'

    def shapes(self, tier):
        for n in range(1, 4 if tier == 'quick' else 5):
            yield dict(n=n)

    def mk(self, shape, src):
        n = shape['n']
        return ([src.int('w%d' % i, 3, 1, 4) for i in range(n)], src.int('s', 5, 1, 4 * n))

    def impl(self, shape, args):
        from crysp.utils.knapsack import dynprog
        w, s = args
        items = [(Tag(i), w[i]) for i in range(len(w))]
        r1, r2 = dynprog(items, s), dynprog(items, s)
        if r1 is None:
            return dict(kind='fail', same=r2 is None)
        tot = 0
        for t, wt in r1:
            assert items[t.i][0] is t
            tot = tot + wt
        return dict(kind='list', sum_ok=bool(tot == s), same=[t.i for t, _ in r1] == [t.i for t, _ in (r2 or [])])

    def spec(self, shape, args):
        w, s = args
        # reachable with repetition?  bounded search over multiplicities (weights >= 1, target <= 4n)
        n = len(w)
        reach = False
        for mult in itertools.product(range(0, 4 * n + 1), repeat=n):
            if sum(mult) == 0 or sum(mult) > 4 * n:
                continue
            tot = 0
            for m_, wt in zip(mult, w):
                tot = tot + m_ * wt
            if tot == s:
                reach = True
                break
        if not reach:
            return dict(kind='fail', same=True)
        return dict(kind='list', sum_ok=True, same=True)


for c in (Positional, NextPerm, Knapsack, DynprogWeak):
    register(c())
