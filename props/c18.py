"""C18 - the white-box DES tables compute exactly DES under the embedded key, for EVERY key and every block.
Decomposition (both parts with a SYMBOLIC key):
 (T) table lemma: the round key is a fresh symbolic 48-bit value (subkey() stubbed), table_rKT generates its 12x256 T-boxes with
     symbolic entries, and for a symbolic index x every T-box equals its closed form  S_n(x[0:6]^k_n)[reversed] // x[(0,5,6,7)]
     (identity for the 4 bypass boxes); entries are bytes; the generator uses the key only through subkey(PC1(K),r);
 (E) skeleton: WhiteDES.enc with the real table_M1/M2/M3 and the T-boxes replaced by that closed form over uninterpreted S-boxes
     (round keys = the real subkey(PC1(K),r) of a symbolic 64-bit K) equals the FIPS 46-3 reference over the same S-boxes for a
     symbolic block; plus DES.enc itself (C02).  Together: WhiteDES(tables(K)).enc(B) == DES(K).enc(B) == FIPS 46-3, all K, all B."""
from props.common import Case, register, MustRaise, NoClaim, getitem
from props import c02
from refs import ciphers as RC


def _b(xs):
    if all(isinstance(v, int) for v in xs):
        return bytes(xs)
    from symx.core import SymBytes
    return SymBytes(xs)


def closed_tbox(n, kchunk, x):
    "closed form of T-box n for round-key chunk kchunk (6 bits) at byte x, written with the library's own S() (real or UF-stubbed)"
    from crysp.bits import Bits
    import crysp.des as des
    xb = Bits(x, 8)
    if n >= 8:
        return xb.ival
    re = xb[0:6]
    xx = re ^ Bits(kchunk, 6)
    i = xx[(5, 0)].ival
    j = xx[(4, 3, 2, 1)].ival
    s = Bits(des.S(n, (i << 4) + j), 4)[::-1]
    return (s // xb[(0, 5, 6, 7)]).ival


def RC_pc1(K):
    "PC1 of a 64-bit key given as crysp integer (bit i = FIPS bit i+1) -> 56-bit integer in the same convention"
    v = 0
    for j, t in enumerate(RC.DES_PC1):
        v = v | (((K >> (t - 1)) & 1) << j)
    return v


def hw_patches():
    "summary of Bits.hw: population count as a sum of bits (lemma: C08.unary hw); parity then becomes an xor"
    from crysp.bits import Bits
    from symx.core import SymInt
    real = Bits.hw

    def hw(self):
        if not isinstance(self.ival, SymInt):
            return real(self)
        t = 0
        for i in range(self.size):
            t = t + ((self.ival >> i) & 1)
        return t
    return [(Bits, 'hw', hw)]


class Tables(Case):
    prop = 'C18'
    name = 'C18.tables'
    kind = 'L'
    uf_concrete = c02.UFC
    timeout_s = 900
    bounds = ('table_rKT(r,K) with the round key a fresh SYMBOLIC 48-bit value (any key, any round): for each of the 12 T-boxes EVERY one of the 256 entries equals the closed form over the '
              'real DES S-box (bypass boxes are the identity); 12 tables of 256 entries, every entry at most 8 bits wide; the generator reads the key only through subkey(PC1(K), r) (arguments checked for a symbolic K); table_M1/M2/M3 take no key argument')

    def shapes(self, tier):
        for n in range(12):
            yield dict(n=n)
        yield dict(n='shape')

    def mk(self, shape, src):
        return (src.int('k', 48), src.int('x', 8), src.int('K', 64))

    def impl(self, shape, args):
        import crysp.wb as wb
        from crysp.bits import Bits
        import inspect
        k, x = args[0], args[1]
        real_subkey = wb.subkey
        seen = []

        def stub(kk, r):
            seen.append((kk.ival, kk.size, r))
            return Bits(k, 48)
        wb.subkey = stub
        Kbits = Bits(args[2], 64)
        try:
            rks, rkt = wb.table_rKT(5, Kbits)
        finally:
            wb.subkey = real_subkey
        if shape['n'] == 'shape':
            ok = len(rkt) == 12 and all(len(t) == 256 for t in rkt)
            if self.symbolic:
                from symx.core import SymInt
                wid = all((not isinstance(v, SymInt) and 0 <= v < 256) or (isinstance(v, SymInt) and v.lo >= 0 and v.w <= 8) for t in rkt for v in t)
            else:
                wid = all(0 <= v < 256 for t in rkt for v in t)
            nokey = [len(inspect.signature(f).parameters) for f in (wb.table_M1, wb.table_M2, wb.table_M3)]
            import crysp.des as des
            pk = des.PC1(Kbits)
            return dict(ok=ok, wid=wid, nokey=nokey, subkey_args=[list(t) for t in seen], want=[[pk.ival, pk.size, 5]])
        # all 256 entries of the table, each a term over the symbolic round key
        return list(rkt[shape['n']])

    def stubs(self, shape):
        return None

    def spec(self, shape, args):
        k, x = args[0], args[1]
        if shape['n'] == 'shape':
            want = [[RC_pc1(args[2]), 56, 5]]
            return dict(ok=True, wid=True, nokey=[0, 0, 0], subkey_args=want, want=want)
        n = shape['n']
        kchunk = (k >> (6 * n)) & 63 if n < 8 else 0
        return [closed_tbox(n, kchunk, v) for v in range(256)]


class TablesHistory(Case):
    """tables generated for key B after tables were generated for a related key A in the same process (caches keyed by a part of the
    key would show here): every T-box of every round for B, at a SYMBOLIC byte index, equals the closed form for B's round key"""
    prop = 'C18'
    name = 'C18.tables_history'
    kind = 'I'
    timeout_s = 600
    bounds = ('table_rKT(r,B) after table_rKT(r,A) for key pairs (A,B) that differ only in the top bit of each byte, only in the parity bits, only in one middle bit, or are equal / weak keys; every round 0..15 (quick: 0,1,15), '
              'T-boxes 0..7, SYMBOLIC byte index: entry == closed form over the real DES S-box with B\'s round key')

    def shapes(self, tier):
        pairs = [('0123456789abcdef', '8123456789abcdef'), ('0123456789abcdef', '81a3c5e709abcdef'), ('0123456789abcdef', '0022446688aaccee'),
                 ('0123456789abcdef', '0123456789abcdff'), ('0101010101010101', 'fefefefefefefefe'), ('0123456789abcdef', '0123456789abcdef')]
        for a, b in pairs:
            for r in ((0, 1, 15) if tier == 'quick' else range(16)):
                yield dict(a=a, b=b, r=r)

    def mk(self, shape, src):
        return (src.int('x', 8),)

    def impl(self, shape, args):
        import crysp.wb as wb
        from crysp.bits import Bits
        A, B = Bits(bytes.fromhex(shape['a']), 64), Bits(bytes.fromhex(shape['b']), 64)
        for r in range(16):
            wb.table_rKT(r, A)
        rks, rkt = wb.table_rKT(shape['r'], B)
        return [getitem(list(rkt[n]), args[0]) for n in range(12)]

    def spec(self, shape, args):
        import crysp.des as des
        from crysp.bits import Bits
        B = Bits(bytes.fromhex(shape['b']), 64)
        fk = des.subkey(des.PC1(B), shape['r'])
        nfk = fk.split(6)
        return [closed_tbox(n, nfk[n].ival if n < 8 else 0, args[0]) for n in range(12)]


class Enc(Case):
    prop = 'C18'
    name = 'C18.enc'
    uf_concrete = c02.UFC
    timeout_s = 1200
    bounds = ('WhiteDES(KT, table_M1(), table_M2()[0], table_M3()).enc(B) with a SYMBOLIC 64-bit key K and SYMBOLIC block B, T-boxes in closed form over uninterpreted S1..S8 with round keys '
              'subkey(PC1(K),r) (lemma C18.tables), all 16 rounds, == FIPS 46-3 DES over the same S-boxes')
    stub_note = 'T-boxes in closed form (lemma C18.tables); DES S-boxes UF (lemma C02.leaf des.S); Bits.hw summary = bit sum (lemma C08.unary hw); reverse_byte summary'

    def shapes(self, tier):
        yield dict(kind='symkey')

    def mk(self, shape, src):
        K = src.bytes('K', 8) if shape['kind'] == 'symkey' else bytes.fromhex(shape['key'])
        return (K, src.bytes('B', 8))

    def stubs(self, shape):
        from symx.harness import patched
        from symx.stubs import reverse_byte_patches
        ps = reverse_byte_patches() + hw_patches()
        if shape['kind'] == 'symkey':
            ps += c02.des_patches()
        return patched(ps)

    def impl(self, shape, args):
        import crysp.wb as wb
        import crysp.des as des
        from crysp.bits import Bits
        K, B = args
        bK = Bits(K, 64)
        if shape['kind'] == 'conckey' or not self.symbolic:
            KT = [wb.table_rKT(r, bK)[1] for r in range(16)]
        else:
            class Closed(object):
                def __init__(self, n, kc):
                    self.n, self.kc = n, kc

                def __getitem__(self, x):
                    return closed_tbox(self.n, self.kc, x.ival if hasattr(x, 'ival') else x)
            KT = []
            pk = des.PC1(bK)
            for r in range(16):
                fk = des.subkey(pk, r)
                nfk = fk.split(6)
                KT.append([Closed(n, nfk[n].ival if n < 8 else 0) for n in range(12)])
        W = wb.WhiteDES(KT, wb.table_M1(), wb.table_M2()[0], wb.table_M3())
        return W.enc(B)

    def spec(self, shape, args):
        K, B = args
        lv = c02.DesUF if (self.symbolic and shape['kind'] == 'symkey') else RC.DesStd
        return _b(RC.des_crypt(list(K), list(B), False, lv))


for c in (Tables, TablesHistory, Enc):
    register(c())


# ---- lemmas for the stubs this check relies on (see props.common.Borrowed) ----
from props.common import Borrowed, REGISTRY
from props import c01 as _c01
register(Borrowed(REGISTRY['C01.reverse_byte'], 'C18', 'reverse_byte'))
from props import c02 as _c02
register(Borrowed(REGISTRY['C02.leaf'], 'C18', 'des_sbox', keep=lambda sh: sh.get('fn') == 'des.S'))
from props import c08 as _c08
register(Borrowed(REGISTRY['C08.unary'], 'C18', 'hw', keep=lambda sh: sh.get('op') == 'hw'))
