"""C08 - Bits operators are fixed-width modular algebra touching only addressed bits.
Every payload is a solver variable; sizes, shift amounts (concrete and symbolic) and index expressions are enumerated."""
import itertools
from props.common import Case, register, MustRaise, NoClaim, crysp_plain


def _bits():
    from crysp.bits import Bits
    return Bits


def st(x):
    return [x.ival, x.size, x.mask]


def M(w):
    return (1 << w) - 1


DIAG = [7, 8, 16, 31, 32, 33, 63, 64, 65]
DIAG_T = DIAG + [127, 128, 129, 255, 256, 257, 1024, 2048]


def pairs(tier):
    r = 7 if tier == 'quick' else 25
    ps = [(m, n) for m in range(r) for n in range(r)]
    d = DIAG if tier == 'quick' else DIAG_T
    ps += [(k, k) for k in d]
    ps += [(d[i], d[i + 1]) for i in range(len(d) - 1)] + [(d[i + 1], d[i]) for i in range(len(d) - 1)]
    return ps


def sizes(tier):
    return list(range(7 if tier == 'quick' else 41)) + (DIAG if tier == 'quick' else [x for x in DIAG_T if x > 40])


class BinOp(Case):
    prop = 'C08'
    name = 'C08.binop'
    bounds = 'ops + - & | ^ // hd on Bits x Bits for sizes (m,n) in 0..6^2 (quick) / 0..24^2 (thorough) plus word-boundary sizes up to 65 (quick) / 2048 (thorough); all payloads symbolic'
    OPS = ['add', 'sub', 'and', 'or', 'xor', 'cat', 'mul']

    def shapes(self, tier):
        for m, n in pairs(tier):
            for op in self.OPS:
                if op == 'mul' and (m > 16 or n > 16):
                    continue          # symbolic x symbolic multiplication: bounded to 16 bits
                yield dict(op=op, m=m, n=n)
            if m == n and m <= 6:
                yield dict(op='hd', m=m, n=n)

    def mk(self, shape, src):
        return (src.int('a', shape['m']), src.int('b', shape['n']))

    def impl(self, shape, args):
        Bits = _bits()
        a, b = Bits(args[0], shape['m']), Bits(args[1], shape['n'])
        op = shape['op']
        if op == 'add': r = a + b
        elif op == 'sub': r = a - b
        elif op == 'and': r = a & b
        elif op == 'or': r = a | b
        elif op == 'xor': r = a ^ b
        elif op == 'cat': r = a // b
        elif op == 'mul': r = a * b
        elif op == 'hd': return dict(r=a.hd(b), a=st(a), b=st(b))
        return dict(r=st(r), a=st(a), b=st(b))

    def spec(self, shape, args):
        a, b = args
        m, n, op = shape['m'], shape['n'], shape['op']
        w = max(m, n)
        if op == 'add': r = [(a + b) & M(w), w, M(w)]
        elif op == 'sub': r = [(a - b) & M(w), w, M(w)]
        elif op == 'and': r = [a & b, w, M(w)]
        elif op == 'or': r = [a | b, w, M(w)]
        elif op == 'xor': r = [a ^ b, w, M(w)]
        elif op == 'cat': r = [a | (b << m), m + n, M(m + n)]
        elif op == 'mul': r = [(a * b) & M(m), m, M(m)]
        elif op == 'hd': r = sum(((a ^ b) >> i) & 1 for i in range(m))
        return dict(r=r, a=[a, m, M(m)], b=[b, n, M(n)])


class IntOp(Case):
    prop = 'C08'
    name = 'C08.intop'
    bounds = 'Bits op int and int op Bits for + - & | ^ // *, Bits size m in 0..6 (+8,16,32 thorough), int operand any value below 2^n, n in 0..6 (rsub: operand below 2^m only)'
    OPS = ['add', 'sub', 'and', 'or', 'xor', 'radd', 'rsub', 'rand', 'ror', 'rxor', 'cat', 'mul']

    def shapes(self, tier):
        ms = list(range(7)) + ([8, 16, 32] if tier == 'thorough' else [])
        for m in ms:
            for n in range(0, 7 if tier == 'quick' else 10):
                for op in self.OPS:
                    if op == 'rsub' and n > m:
                        continue
                    yield dict(op=op, m=m, n=n)

    def mk(self, shape, src):
        return (src.int('a', shape['m']), src.int('k', shape['n']))

    def impl(self, shape, args):
        Bits = _bits()
        a, k = Bits(args[0], shape['m']), args[1]
        op = shape['op']
        if op == 'add': r = a + k
        elif op == 'sub': r = a - k
        elif op == 'and': r = a & k
        elif op == 'or': r = a | k
        elif op == 'xor': r = a ^ k
        elif op == 'radd': r = k + a
        elif op == 'rsub': r = k - a
        elif op == 'rand': r = k & a
        elif op == 'ror': r = k | a
        elif op == 'rxor': r = k ^ a
        elif op == 'cat': r = a // k
        elif op == 'mul': r = a * k
        return dict(r=st(r), a=st(a))

    def spec(self, shape, args):
        a, k = args
        m, op = shape['m'], shape['op']
        kb = k.bit_length()
        w = max(m, kb)
        if op in ('add', 'radd'): r = [(a + k) & M(w), w, M(w)]
        elif op == 'sub': r = [(a - k) & M(w), w, M(w)]
        elif op == 'rsub': r = [(k - a) & M(m), m, M(m)]
        elif op in ('and', 'rand'): r = [a & k, w, M(w)]
        elif op in ('or', 'ror'): r = [a | k, w, M(w)]
        elif op in ('xor', 'rxor'): r = [a ^ k, w, M(w)]
        elif op == 'cat': r = [a | (k << m), m + kb, M(m + kb)]
        elif op == 'mul': r = [(a * k) & M(m), m, M(m)]
        return dict(r=r, a=[a, m, M(m)])


class Unary(Case):
    prop = 'C08'
    name = 'C08.unary'
    bounds = 'ops ~ neg hw zeroextend signextend split (both piece orders) on sizes 0..6 + word boundaries to 65 (quick) / 0..12 + to 2048 (thorough); a+(-a)==0'
    OPS = ['inv', 'neg', 'negsum', 'hw', 'zext', 'sext', 'split', 'copy']

    def shapes(self, tier):
        for m in sizes(tier):
            for op in self.OPS:
                if op in ('zext', 'sext'):
                    for e in (0, 1, 2, 9):
                        yield dict(op=op, m=m, e=m + e - 1 if e else max(0, m - 1))
                elif op == 'split':
                    for k in sorted(set([1, 2, 3, 5, 8, max(1, m - 1), max(1, m), m + 1])):
                        if m > 70 and k < 8:
                            continue
                        yield dict(op=op, m=m, k=k)
                elif op == 'hw':
                    if m <= (8 if tier == 'quick' else 11):
                        yield dict(op=op, m=m)
                else:
                    yield dict(op=op, m=m)

    def mk(self, shape, src):
        return (src.int('a', shape['m']),)

    def impl(self, shape, args):
        Bits = _bits()
        m, op = shape['m'], shape['op']
        a = Bits(args[0], m)
        if op == 'inv': return dict(r=st(~a), a=st(a))
        if op == 'neg': return dict(r=st(-a), a=st(a))
        if op == 'negsum': return dict(r=st(a + (-a)), a=st(a))
        if op == 'hw': return dict(r=a.hw(), a=st(a))
        if op == 'copy':
            c = Bits(a)
            if m > 0:
                c[0] = 1
                c[m - 1] = 0
            return dict(a=st(a), c=st(c))
        if op == 'zext':
            r = a.zeroextend(shape['e'])
            return dict(r=st(r), same=r is a, u=r.int())
        if op == 'sext':
            s0 = a.int(-1) if m > 0 else 0
            r = a.signextend(shape['e'])
            return dict(r=st(r), same=r is a, s0=s0, s1=r.int(-1) if m > 0 else 0)
        if op == 'split':
            ps = a.split(shape['k'])
            from crysp.utils.operators import concat
            return dict(ps=[st(p) for p in ps], be=[st(p) for p in a.split(shape['k'], bigend=True)], back=st(concat(ps)) if ps else None, a=st(a))

    def spec(self, shape, args):
        a, = args
        m, op = shape['m'], shape['op']
        A = [a, m, M(m)]
        if op == 'inv': return dict(r=[a ^ M(m), m, M(m)], a=A)
        if op == 'neg': return dict(r=[(-a) & M(m), m, M(m)], a=A)
        if op == 'negsum': return dict(r=[0, m, M(m)], a=A)
        if op == 'hw': return dict(r=sum((a >> i) & 1 for i in range(m)), a=A)
        if op == 'copy':
            c = a
            if m > 0:
                c = (c | 1) & (M(m) ^ (1 << (m - 1)))
            return dict(a=A, c=[c, m, M(m)])
        if op == 'zext':
            e = max(m, shape['e'])
            return dict(r=[a, e, M(e)], same=True, u=a)
        if op == 'sext':
            e = max(m, shape['e'])
            if m == 0:
                raise NoClaim('the empty vector has no sign bit: sign extension of it is not demanded')
            sign = (a >> (m - 1)) & 1
            sv = a - (sign << m)
            return dict(r=[sv & M(e), e, M(e)], same=True, s0=sv, s1=sv)
        if op == 'split':
            k = shape['k']
            ps = []
            i = 0
            while i < m:
                sz = min(k, m - i)
                ps.append([(a >> i) & M(sz), sz, M(sz)])
                i += k
            return dict(ps=ps, be=ps[::-1], back=A if ps else None, a=A)


class Shift(Case):
    prop = 'C08'
    name = 'C08.shift'
    bounds = 'a<<i, a>>i, rol, ror: sizes as C08.unary; amount i every concrete value 0..m+2 (sizes<=12), boundary amounts otherwise, plus one fully symbolic amount 0..m+2 per size (sizes<=33); rol/ror amounts 0..m; rol(ror(a,k),k)==a'

    def shapes(self, tier):
        for m in sizes(tier):
            amts = range(0, m + 3) if m <= 12 else sorted(set([0, 1, 7, 8, m // 2, m - 1, m, m + 1, m + 2]))
            for i in amts:
                yield dict(op='shl', m=m, i=i)
                yield dict(op='shr', m=m, i=i)
                if i <= m and m > 0:
                    yield dict(op='rol', m=m, i=i)
                    yield dict(op='ror', m=m, i=i)
                    yield dict(op='rolror', m=m, i=i)
            if m <= 33:
                yield dict(op='shl', m=m, i='sym')
                yield dict(op='shr', m=m, i='sym')
                if m > 0:
                    yield dict(op='rol', m=m, i='sym')
                    yield dict(op='ror', m=m, i='sym')

    def mk(self, shape, src):
        a = src.int('a', shape['m'])
        if shape['i'] == 'sym':
            hi = shape['m'] + 2 if shape['op'] in ('shl', 'shr') else shape['m']
            i = src.int('i', hi.bit_length(), 0, hi)
        else:
            i = shape['i']
        return (a, i)

    def impl(self, shape, args):
        Bits = _bits()
        from crysp.utils.operators import rol, ror
        m, op = shape['m'], shape['op']
        a, i = Bits(args[0], m), args[1]
        if op == 'shl': r = a << i
        elif op == 'shr': r = a >> i
        elif op == 'rol': r = rol(a, i)
        elif op == 'ror': r = ror(a, i)
        elif op == 'rolror': r = rol(ror(a, i), i)
        return dict(r=st(r), a=st(a))

    def spec(self, shape, args):
        a, i = args
        m, op = shape['m'], shape['op']
        if op == 'shl': v = (a << i) & M(m)
        elif op == 'shr': v = a >> i
        elif op == 'rol': v = ((a << i) | (a >> (m - i))) & M(m)
        elif op == 'ror': v = ((a >> i) | (a << (m - i))) & M(m)
        elif op == 'rolror': v = a
        return dict(r=[v, m, M(m)], a=[a, m, M(m)])


def _bl(a, m):
    return [(a >> i) & 1 for i in range(m)]


def _val(bits):
    v = 0
    for i, b in enumerate(bits):
        v = v | (b << i)
    return v


STEPS = [None, 1, -1, 2, -2, 3, -3]


class GetItem(Case):
    prop = 'C08'
    name = 'C08.getitem'
    bounds = 'b[i] for every -n<=i<n (IndexError demanded for i>=n or i<-n-... outside), b[i:j:k] for every start,stop in {-n-1..n+1,None} and step in {None,+-1,+-2,+-3}, b[list] for every index list of length<=3 over 0..n-1 (repeats included); n in 0..5 (quick) / 0..7 (thorough)'
    timeout_s = 300

    def shapes(self, tier):
        for n in range(0, 6 if tier == 'quick' else 8):
            yield dict(kind='int', n=n)
            for k in STEPS:
                yield dict(kind='slice', n=n, step=k)
            if n > 0:
                yield dict(kind='list', n=n)

    def mk(self, shape, src):
        return (src.int('a', shape['n']),)

    def _exprs(self, shape):
        n = shape['n']
        if shape['kind'] == 'int':
            return list(range(-n, n))
        if shape['kind'] == 'slice':
            rng = [None] + list(range(-n - 1, n + 2))
            return [(i, j, shape['step']) for i in rng for j in rng]
        out = []
        for L in range(1, 4):
            out += [list(t) for t in itertools.product(range(n), repeat=L)]
        return out

    def impl(self, shape, args):
        Bits = _bits()
        n = shape['n']
        a = Bits(args[0], n)
        out = []
        for e in self._exprs(shape):
            if shape['kind'] == 'int': r = a[e]
            elif shape['kind'] == 'slice': r = a[slice(*e)]
            else: r = a[e]
            out.append(st(r))
        if shape['kind'] == 'int':
            for e in (n, n + 1, -n - 1, -n - 2):
                if e == -n - 1 + 1 and False:
                    continue
                try:
                    a[e]
                    out.append('accepted %d' % e)
                except IndexError:
                    out.append('IndexError')
        return dict(out=out, a=st(a))

    def spec(self, shape, args):
        a, = args
        n = shape['n']
        bits = _bl(a, n)
        out = []
        for e in self._exprs(shape):
            if shape['kind'] == 'int': sel = [bits[e]]
            elif shape['kind'] == 'slice': sel = bits[slice(*e)]
            else: sel = [bits[i] for i in e]
            out.append([_val(sel), len(sel), M(len(sel))])
        if shape['kind'] == 'int':
            if n == 0:
                raise NoClaim('single-bit access on the empty vector is not demanded')
            out += ['IndexError'] * 4
        return dict(out=out, a=[a, n, M(n)])


class SetItem(Case):
    prop = 'C08'
    name = 'C08.setitem'
    bounds = 'b[i]=v, b[i:j:k]=bits, b[i:j]=int that fits, b[list]=bits (distinct indices, length<=3), value given as a distinct Bits object, value being the target itself (aliasing, n<=4) for the same index expressions as C08.getitem; value bits symbolic; everything outside the selection must be unchanged'
    timeout_s = 300
    max_paths = 20000

    def shapes(self, tier):
        for n in range(1, 6 if tier == 'quick' else 7):
            for i in range(-n, n):
                yield dict(kind='int', n=n, i=i)
            rng = [None] + list(range(-n - 1, n + 2))
            for k in STEPS:
                for i in rng:
                    yield dict(kind='slice', n=n, step=k, start=i)
            yield dict(kind='sliceint', n=n)
            yield dict(kind='list', n=n)
            yield dict(kind='bitsval', n=n)
            if n <= 4:
                yield dict(kind='alias', n=n)

    def mk(self, shape, src):
        return (src.int('a', shape['n']), src.int('v', max(3, shape['n'])))

    def _targets(self, shape):
        n = shape['n']
        rng = [None] + list(range(-n - 1, n + 2))
        if shape['kind'] == 'int':
            return [shape['i']]
        if shape['kind'] == 'slice':
            return [(shape['start'], j, shape['step']) for j in rng]
        if shape['kind'] == 'sliceint':
            return [(i, j, None) for i in range(0, n) for j in range(i + 1, n + 1)]
        if shape['kind'] == 'bitsval':
            # value given as a Bits object (a distinct one): contiguous, stepped and reversed selections
            return [(i, j, k) for i in (None, 0, 1) for j in (None, n, n - 1) for k in (None, 1, -1, 2, -2)]
        if shape['kind'] == 'alias':
            # the assigned value is the target vector itself: whole-vector selections in every order
            return [(None, None, -1), (None, None, 1)] + [list(t) for t in itertools.permutations(range(n), n)]
        out = []
        for L in range(1, 4):
            out += [list(t) for t in itertools.permutations(range(n), L)]
        return out

    def impl(self, shape, args):
        Bits = _bits()
        n = shape['n']
        out = []
        for e in self._targets(shape):
            a = Bits(args[0], n)
            if shape['kind'] == 'int':
                a[e] = args[1] & 1
            elif shape['kind'] == 'slice':
                L = len(range(n)[slice(*e)])
                a[slice(*e)] = [(args[1] >> t) & 1 for t in range(L)]
            elif shape['kind'] == 'sliceint':
                L = e[1] - e[0]
                a[slice(*e)] = args[1] & M(L)
            elif shape['kind'] == 'bitsval':
                L = len(range(n)[slice(*e)])
                if L == 0:
                    out.append(st(a))
                    continue
                val = Bits(args[1] & M(L), L)
                a[slice(*e)] = val
                out.append(st(val))
            elif shape['kind'] == 'alias':
                if isinstance(e, tuple):
                    a[slice(*e)] = a
                else:
                    a[e] = a
            else:
                a[e] = [(args[1] >> t) & 1 for t in range(len(e))]
            out.append(st(a))
        return dict(out=out)

    def spec(self, shape, args):
        a0, v = args
        n = shape['n']
        out = []
        for e in self._targets(shape):
            bits = _bl(a0, n)
            if shape['kind'] == 'int':
                idx = [range(n)[e]]
            elif shape['kind'] in ('slice', 'sliceint', 'bitsval') or isinstance(e, tuple):
                idx = list(range(n)[slice(*e)])
            else:
                idx = e
            if shape['kind'] == 'alias':
                old = list(bits)
                for t, i in enumerate(idx):
                    bits[i] = old[t]          # the value is read before anything is written
            else:
                for t, i in enumerate(idx):
                    bits[i] = (v >> t) & 1
            if shape['kind'] == 'bitsval' and len(idx) > 0:
                L = len(idx)
                out.append([v & M(L), L, M(L)])      # the value object itself must be unchanged
            out.append([_val(bits), n, M(n)])
        return dict(out=out)


class MutSeq(Case):
    prop = 'C08'
    name = 'C08.mutseq'
    bounds = 'every sequence of length<=2 (quick) / <=3 (thorough) over {setbit, setslice, size=, zeroextend, signextend} applied to one vector of size 6 with symbolic payload and symbolic written values; an alias (copy taken before) must keep the old value; state compared with the model after every step'
    OPS = ['setbit', 'setslice', 'size-', 'size+', 'zext', 'sext']

    def shapes(self, tier):
        L = 2 if tier == 'quick' else 3
        for k in range(1, L + 1):
            for seq in itertools.product(self.OPS, repeat=k):
                yield dict(seq=list(seq), n=6)

    def mk(self, shape, src):
        return (src.int('a', shape['n']), src.int('v', 4 * len(shape['seq'])))

    def impl(self, shape, args):
        Bits = _bits()
        a = Bits(args[0], shape['n'])
        c = Bits(a)
        trace = []
        for t, op in enumerate(shape['seq']):
            v = (args[1] >> (4 * t)) & 15
            if op == 'setbit': a[1] = v & 1
            elif op == 'setslice': a[1:3] = [v & 1, (v >> 1) & 1]
            elif op == 'size-': a.size = a.size - 1
            elif op == 'size+': a.size = a.size + 2
            elif op == 'zext': a.zeroextend(a.size + 1)
            elif op == 'sext': a.signextend(a.size + 2)
            trace.append(st(a))
        return dict(trace=trace, alias=st(c))

    def spec(self, shape, args):
        a, n = args[0], shape['n']
        a0 = a
        trace = []
        for t, op in enumerate(shape['seq']):
            v = (args[1] >> (4 * t)) & 15
            if op == 'setbit': a = (a & ~2 & M(n)) | ((v & 1) << 1)
            elif op == 'setslice': a = (a & ~6 & M(n)) | ((v & 3) << 1)
            elif op == 'size-': n -= 1; a = a & M(n)
            elif op == 'size+': n += 2
            elif op == 'zext': n += 1
            elif op == 'sext':
                s = (a >> (n - 1)) & 1
                a = a | ((s * 3) << n)
                n += 2
            trace.append([a, n, M(n)])
        return dict(trace=trace, alias=[a0, shape['n'], M(shape['n'])])


for c in (BinOp, IntOp, Unary, Shift, GetItem, SetItem, MutSeq):
    register(c())
