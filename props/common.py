"""Shared, engine-free definitions for property cases.  Importable by /venv/bin/python (replay, no z3) and by
python3-vt (symbolic run).

A *Case* says what to call in the real code and what the property demands of the result:

    class MyCase(Case):
        name  = 'C01.hash'
        def shapes(self, tier): yield {...}            # JSON-able; control-relevant sizes/configuration
        def mk(self, shape, src): return args          # data built from src.bytes()/src.int() (symbolic or concrete)
        def impl(self, shape, args): ...               # calls the real crysp code
        def spec(self, shape, args): ...               # the oracle (reference model) on the same args

`impl`/`spec` are written once and run both symbolically (all data = solver variables) and concretely
(replay of a counterexample against the untouched /repo under /venv/bin/python)."""
import os, sys, random, importlib


class MustRaise(Exception):
    "raised by spec(): the property demands that the call is rejected (any exception)"


class NoClaim(Exception):
    "raised by spec()/mk(): nothing is demanded for this shape/path"


class Case(object):
    name = None
    prop = None
    kind = 'S'              # S skeleton, L leaf lemma, P path obligation, I inductive step
    timeout_s = 120         # per-shape wall budget in the worker
    solver_timeout_ms = 60000
    nvalidate = 2           # translator validations (random assignments) per shape
    uf_concrete = {}        # UF name -> concrete python function (for evaluation of terms containing UFs)

    def shapes(self, tier):
        raise NotImplementedError

    def mk(self, shape, src):
        raise NotImplementedError

    def impl(self, shape, args):
        raise NotImplementedError

    def spec(self, shape, args):
        raise NotImplementedError

    def stubs(self, shape):
        "engine only: context manager installing UF stubs / summaries in the instrumented crysp modules"
        return None

    def describe(self, shape):
        return '%s %s' % (self.name, shape)


class Borrowed(Case):
    """the lemma cases of another property, run again under THIS property's check: a check that replaces a real function by a
    summary or an uninterpreted function is only sound together with the lemma proving that summary on the real code, so every
    check carries the lemmas of the stubs it uses (a change to such a leaf is then reported by every check that relies on it)."""
    kind = 'L'

    def __init__(self, base, prop, what, keep=None):
        self.__dict__['base'] = base
        self.__dict__['prop'] = prop
        self.__dict__['name'] = '%s.lemma.%s' % (prop, what)
        self.__dict__['keep'] = keep
        self.__dict__['bounds'] = 'lemmas for the summaries / uninterpreted leaves this check relies on (obligations of %s run under this property): %s' % (
            base.name, getattr(base, 'bounds', ''))

    def __getattr__(self, k):
        return getattr(self.__dict__['base'], k)

    def __setattr__(self, k, v):
        if k == 'symbolic':
            setattr(self.__dict__['base'], k, v)
        self.__dict__[k] = v

    def shapes(self, tier):
        for sh in self.base.shapes(tier):
            if self.keep is None or self.keep(sh):
                yield sh

    def mk(self, shape, src): return self.base.mk(shape, src)
    def impl(self, shape, args): return self.base.impl(shape, args)
    def spec(self, shape, args): return self.base.spec(shape, args)
    def stubs(self, shape): return self.base.stubs(shape)

    def describe(self, shape):
        return '%s %s' % (self.name, shape)


class ConcSrc(object):
    "concrete data source: from an environment {var: int} (missing -> 0) or from a seeded RNG"
    symbolic = False

    def __init__(self, env=None, rng=None):
        self.env = env if env is not None else {}
        self.rng = rng
        self.used = {}

    def _get(self, name, bits, lo=None, hi=None):
        if bits == 0:
            return 0
        if name in self.env:
            v = self.env[name]
        elif self.rng is not None:
            if lo is not None or hi is not None:
                v = self.rng.randint(lo if lo is not None else 0, hi if hi is not None else (1 << bits) - 1)
            else:
                r = self.rng.random()
                if r < 0.1: v = 0
                elif r < 0.2: v = (1 << bits) - 1
                else: v = self.rng.getrandbits(bits)
        else:
            v = lo if lo is not None else 0
        v &= (1 << bits) - 1
        self.used[name] = v
        return v

    def int(self, name, bits, lo=None, hi=None):
        return self._get(name, bits, lo, hi)

    def bytes(self, name, n):
        return bytes(self._get('%s_%d' % (name, i), 8) for i in range(n))

    def assume(self, c):
        if not c:
            raise NoClaim('assumption false for this concrete input')


def crysp_plain():
    "make `import crysp` resolve to the untouched repo (replay mode)"
    root = os.environ.get('VERIF_REPO', '/repo')
    if root not in sys.path:
        sys.path.insert(0, root)


def norm(v):
    "normalise a result into a comparable, JSON-able structure (concrete values only)"
    if v is None or isinstance(v, (bool, str)):
        return v
    if isinstance(v, int):
        return int(v)
    if isinstance(v, (bytes, bytearray)):
        return {'bytes': bytes(v).hex()}
    if isinstance(v, (list, tuple)):
        return [norm(x) for x in v]
    if isinstance(v, dict):
        return {str(k): norm(x) for k, x in v.items()}
    raise TypeError('driver returned unsupported value %r' % (type(v),))


def outcome(fn, *a):
    "run fn concretely -> ('ok', normalised value) | ('exc', type name) | ('reject',) | ('noclaim',)"
    try:
        return ('ok', norm(fn(*a)))
    except MustRaise as e:
        return ('reject',) + tuple(e.args[:1])
    except NoClaim:
        return ('noclaim',)
    except Exception as e:
        return ('exc', type(e).__name__)


def agree(impl_o, spec_o):
    "does the implementation outcome satisfy what the spec outcome demands?"
    if spec_o[0] == 'noclaim':
        return True
    if spec_o[0] == 'reject':
        if len(spec_o) > 1:
            return impl_o[0] == 'exc' and impl_o[1] == spec_o[1]
        return impl_o[0] == 'exc'
    if spec_o[0] == 'exc':
        # the oracle itself failed: treat as harness error upstream
        return None
    return impl_o == spec_o


def getitem(a, i):
    "a[i] where i may be symbolic (case code is not instrumented, so it must ask the engine explicitly)"
    if isinstance(i, int):
        return a[i]
    from symx.core import sx_getitem
    return sx_getitem(a, i)


REGISTRY = {}


def register(case):
    REGISTRY[case.name] = case
    return case


def load_cases(prop):
    "import props.cNN and return its cases"
    m = importlib.import_module('props.%s' % prop.lower())
    return [c for c in REGISTRY.values() if c.prop == prop]
