"""C12 - Skein hash, MAC and tree hash equal the Skein 1.3 specification.
Threefish is an uninterpreted function of (key, tweak, block) per width on both sides (Threefish itself is C02), so each obligation
checks the whole UBI plumbing - tweaks (position, level, flags) are compared exactly inside the UF arguments - for every
message/key/personalisation byte of the enumerated shape."""
from props.common import Case, register, MustRaise, NoClaim
from refs import skein as RSK
from refs import ciphers as RC


def _b(xs):
    if all(isinstance(v, int) for v in xs):
        return bytes(xs)
    from symx.core import SymBytes
    return SymBytes(xs)


class _UFC(dict):
    def __missing__(self, name):
        n = int(name[2:]) // 8

        def f(k, t, b):
            r = RC.threefish_enc(list(k.to_bytes(n, 'big')), list(t.to_bytes(16, 'big')), list(b.to_bytes(n, 'big')))
            return int.from_bytes(bytes(r), 'big')
        self[name] = f
        return f


UFC = _UFC()


def _cat(bs):
    from symx import ir, core
    return ir.cat([core.to_n(v, 8) for v in reversed(list(bs))])


def E_uf(key, tweak, blk):
    "uninterpreted Threefish on byte lists"
    from symx import ir, core
    n = len(blk)
    if all(isinstance(v, int) for v in list(key) + list(tweak) + list(blk)):
        return RC.threefish_enc(list(key), list(tweak), list(blk))
    r = ir.uf(8 * n, 'TF%d' % (8 * n), [_cat(key), _cat(tweak), _cat(blk)])
    return [core.from_n(ir.slc(r, 8 * (n - 1 - i), 8)) for i in range(n)]


def tf_stub():
    class TF(object):
        def __init__(self, sK, sT):
            self.k, self.t = sK, sT
            assert len(sK) in (32, 64, 128) and len(sT) == 16

        def enc(self, m):
            assert len(m) == len(self.k)
            return _b(E_uf(self.k, self.t, m))
    return TF


def optlens(Nb):
    return [0, 1, Nb - 1, Nb, Nb + 1, 2 * Nb, 3 * Nb + 1]


class Hash(Case):
    prop = 'C12'
    name = 'C12.skein'
    uf_concrete = UFC
    timeout_s = 600
    bounds = ('Skein(Nb,No,key,prs,PK,kdf,nonce)(M,bitlen): Nb in 256,512,1024; No in {8, Nb/2, Nb, Nb+8, 2Nb, 4Nb}; |M| in {0,1,Nb/8-1,Nb/8,Nb/8+1,2Nb/8,3Nb/8+1}; bit lengths with every L mod 8 at two '
              'lengths; key in {absent, empty, 3 bytes, Nb/8+1 bytes}; prs/PK/kdf/nonce of 0 or 5 bytes; message and all strings symbolic; ceil(No/8) output bytes')
    outside = 'messages beyond 3 blocks + 1; UBI positions beyond 2^64 (C12.position covers carries at the UBI level)'
    stub_note = 'Threefish(key,tweak).enc(block) is an uninterpreted function per width on both sides; the tweak bytes are part of its arguments, so position/level/flag errors change the term'

    def shapes(self, tier):
        for Nbits in (256, 512, 1024):
            Nb = Nbits // 8
            for No in (8, Nbits // 2, Nbits, Nbits + 8, 2 * Nbits, 4 * Nbits):
                for n in (optlens(Nb) if No == Nbits or tier == 'thorough' else (1, Nb + 1)):
                    yield dict(Nb=Nbits, No=No, n=n, L=None, key=None, opts='')
            for n in (1, Nb, Nb + 1):
                for r in range(0, 8):
                    if n * 8 - r > 0 or r == 0:
                        yield dict(Nb=Nbits, No=Nbits, n=n, L=8 * n - r, key=None, opts='')
            yield dict(Nb=Nbits, No=Nbits, n=Nb + 3, L=8 * Nb, key=None, opts='')       # surplus bytes
            for kl in (0, 3, Nb + 1):
                for n in (0, Nb + 1):
                    yield dict(Nb=Nbits, No=Nbits, n=n, L=None, key=kl, opts='')
            for opts in ('p', 'P', 'k', 'n', 'pPkn'):
                yield dict(Nb=Nbits, No=Nbits, n=3, L=None, key=3 if opts == 'pPkn' else None, opts=opts)

    def mk(self, shape, src):
        k = src.bytes('K', shape['key']) if shape['key'] is not None else None
        o = {c: src.bytes('o' + c, 5) for c in shape['opts']}
        return (src.bytes('M', shape['n']), k, o)

    def stubs(self, shape):
        from symx.harness import patched
        from symx.stubs import reverse_byte_patches
        import crysp.skein as sk
        return patched(reverse_byte_patches() + [(sk, 'Threefish', tf_stub())])

    def impl(self, shape, args):
        from crysp.skein import Skein
        M, k, o = args
        S = Skein(shape['Nb'], shape['No'], key=k, prs=o.get('p'), PK=o.get('P'), kdf=o.get('k'), nonce=o.get('n'))
        return S(M) if shape['L'] is None else S(M, bitlen=shape['L'])

    def spec(self, shape, args):
        M, k, o = args
        E = E_uf if self.symbolic else RSK.E_threefish
        r = RSK.skein(E, shape['Nb'] // 8, shape['No'], list(M), shape['L'], key=None if k is None else list(k),
                      prs=list(o['p']) if 'p' in o else None, PK=list(o['P']) if 'P' in o else None,
                      kdf=list(o['k']) if 'k' in o else None, nonce=list(o['n']) if 'n' in o else None)
        assert len(r) == (shape['No'] + 7) // 8
        return _b(r)


class Tree(Case):
    prop = 'C12'
    name = 'C12.tree'
    uf_concrete = UFC
    timeout_s = 600
    bounds = ('Skein-256/512 with tree parameters Yl,Yf in 1..2 (quick) / 1..3, Ym in 2..4 and |M| spanning 1 leaf minus one byte up to 5 leaves (every leaf-boundary +-1), message symbolic; '
              'tree result == specification tree hash over the same uninterpreted Threefish')
    outside = 'the empty message with tree parameters (the specification does not define its leaf); bit lengths with tree hashing (the library ignores them there)'

    def shapes(self, tier):
        for Nbits in (256, 512):
            Nb = Nbits // 8
            rng = (1, 2) if tier == 'quick' else (1, 2, 3)
            for Yl in rng:
                for Yf in rng:
                    for Ym in (2, 3, 4):
                        Nl = Nb << Yl
                        ns = sorted(set([1, Nl - 1, Nl, Nl + 1, 2 * Nl, 2 * Nl + 1, 3 * Nl, 4 * Nl + 1, 5 * Nl]))
                        if Nbits == 512 and tier == 'quick':
                            ns = [Nl, 2 * Nl + 1, 5 * Nl]
                        for n in ns:
                            if n * 1 > 2100 and tier == 'quick':
                                continue
                            yield dict(Nb=Nbits, Yl=Yl, Yf=Yf, Ym=Ym, n=n)

    def mk(self, shape, src):
        return (src.bytes('M', shape['n']),)

    def stubs(self, shape):
        from symx.harness import patched
        from symx.stubs import reverse_byte_patches
        import crysp.skein as sk
        return patched(reverse_byte_patches() + [(sk, 'Threefish', tf_stub())])

    def impl(self, shape, args):
        from crysp.skein import Skein
        return Skein(shape['Nb'], shape['Nb'], Yl=shape['Yl'], Yf=shape['Yf'], Ym=shape['Ym'])(args[0])

    def spec(self, shape, args):
        E = E_uf if self.symbolic else RSK.E_threefish
        return _b(RSK.skein(E, shape['Nb'] // 8, shape['Nb'], list(args[0]), Yl=shape['Yl'], Yf=shape['Yf'], Ym=shape['Ym']))


class Position(Case):
    prop = 'C12'
    name = 'C12.position'
    kind = 'I'
    uf_concrete = UFC
    bounds = ('UBI(Threefish, G, Tweak(Position=p0, Type=msg))(M) with an ARBITRARY chaining value G (symbolic) and start positions p0 in {0, 2^32-8, 2^64-Nb, 2^64-1, 2^95} for |M| in {1, Nb, Nb+1}: '
              'every block tweak carries p0 + bytes processed (carries across the 32- and 64-bit boundaries of the 96-bit position field)')

    def shapes(self, tier):
        for Nbits in (256, 512):
            Nb = Nbits // 8
            for p0 in (0, (1 << 32) - 8, (1 << 64) - Nb, (1 << 64) - 1, 1 << 95):
                for n in (1, Nb, Nb + 1):
                    yield dict(Nb=Nbits, p0=p0, n=n)

    def mk(self, shape, src):
        return (src.bytes('G', shape['Nb'] // 8), src.bytes('M', shape['n']))

    def stubs(self, shape):
        from symx.harness import patched
        from symx.stubs import reverse_byte_patches
        import crysp.skein as sk
        return patched(reverse_byte_patches() + [(sk, 'Threefish', tf_stub())])

    def impl(self, shape, args):
        import crysp.skein as sk
        T = sk.Tweak(Type='msg')
        T.Position = shape['p0']
        return sk.UBI(sk.Threefish, args[0], T)(args[1])

    def spec(self, shape, args):
        E = E_uf if self.symbolic else RSK.E_threefish
        return _b(RSK.ubi(E, list(args[0]), list(args[1]), 'msg', None, 0, shape['p0']))


for c in (Hash, Tree, Position):
    register(c())


# ---- lemmas for the stubs this check relies on (see props.common.Borrowed) ----
from props.common import Borrowed, REGISTRY
from props import c01 as _c01
register(Borrowed(REGISTRY['C01.reverse_byte'], 'C12', 'reverse_byte'))
from props import c02 as _c02
register(Borrowed(REGISTRY['C02.crypt'], 'C12', 'threefish', keep=lambda sh: str(sh.get('cipher', '')).startswith('threefish')))
