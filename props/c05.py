"""C05 - ECB/CBC/CTR/CTS modes follow SP 800-38A and decrypt what they encrypt.
The block cipher is a stand-in whose enc/dec are an uninterpreted function pair (ground inverse law), so one obligation
covers every cipher and key of that block size; message, IV / counter block are symbolic; lengths are enumerated.
A second case runs the modes over the real AES/DES/TDEA/Serpent/Threefish objects (leaves as in C02)."""
import contextlib
from props.common import Case, register, MustRaise, NoClaim
from refs import padding as RP


def _b(xs):
    if all(isinstance(v, int) for v in xs):
        return bytes(xs)
    from symx.core import SymBytes
    return SymBytes(xs)


def conc_E(bs):
    n = len(bs)
    return bytes((bs[(i + 1) % n] ^ ((0xA5 + 7 * i) & 0xff)) for i in range(n))


def conc_D(bs):
    n = len(bs)
    out = [0] * n
    for i in range(n):
        out[(i + 1) % n] = bs[i] ^ ((0xA5 + 7 * i) & 0xff)
    return bytes(out)


class _UFC(dict):
    def __missing__(self, name):
        kind, bits = name[0], int(name[1:])
        n = bits // 8
        f = conc_E if kind == 'E' else conc_D

        def g(x):
            return int.from_bytes(f(x.to_bytes(n, 'big')), 'big')
        self[name] = g
        return g


UFC = _UFC()


class StandIn(object):
    "block cipher stand-in: enc/dec = UF pair E<bits>/D<bits> in symbolic mode, a fixed byte bijection concretely"
    def __init__(self, bits, symbolic):
        self.blocksize = bits
        self.size = bits
        self.symbolic = symbolic

    def _ap(self, name, f, b):
        if len(b) * 8 != self.blocksize:
            raise ValueError('block of %d bytes given to a %d-bit cipher' % (len(b), self.blocksize))
        if not self.symbolic or isinstance(b, (bytes, bytearray)):
            return f(bytes(b))
        from symx import ir, core
        n = len(b)
        x = ir.cat([core.to_n(v, 8) for v in reversed(list(b))])
        r = ir.uf(self.blocksize, '%s%d' % (name, self.blocksize), [x])
        return _b([core.from_n(ir.slc(r, 8 * (n - 1 - i), 8)) for i in range(n)])

    def enc(self, b): return self._ap('E', conc_E, b)
    def dec(self, b): return self._ap('D', conc_D, b)


@contextlib.contextmanager
def ed_pairs():
    from symx import ir
    old = dict(ir.UF_INVERSE)
    for bits in (64, 128, 256, 512, 1024):
        ir.UF_INVERSE['E%d' % bits] = 'D%d' % bits
        ir.UF_INVERSE['D%d' % bits] = 'E%d' % bits
    try:
        yield
    finally:
        ir.UF_INVERSE.clear()
        ir.UF_INVERSE.update(old)


def xor(a, b):
    return [x ^ y for x, y in zip(a, b)]


def ctr_block(iv, i, L):
    "SP 800-38A counter block i: fixed nonce half, big-endian counter half that wraps within its half"
    h = L // 2
    nonce, cnt = list(iv[:h]), list(iv[h:])
    v = 0
    for b in cnt:
        v = (v << 8) | b
    v = (v + i) & ((1 << (8 * (L - h))) - 1)
    return nonce + [(v >> (8 * (L - h - 1 - j))) & 0xff for j in range(L - h)]


def spec_enc(mode, E, L, M, IV, pad):
    "SP 800-38A over block function E (list -> list); returns ciphertext byte list"
    M = list(M)
    if mode == 'CTR':
        out = []
        nblk = (len(M) + L - 1) // L
        for i in range(nblk):
            ks = E(ctr_block(IV, i, L))
            out += xor(M[i * L:(i + 1) * L], ks)
        return out
    if pad == 'nopadding' and (len(M) % L or len(M) == 0):
        raise NoClaim('message outside the domain of the unpadded mode (not a positive number of whole blocks)')
    P, _ = RP.pad(pad, 8 * L, M)
    blks = RP.blocks(P, L)
    if mode == 'ECB':
        return [b for blk in blks for b in E(blk)]
    out = list(IV)
    prev = list(IV)
    for blk in blks:
        prev = list(E(xor(blk, prev)))
        out += prev
    return out


def make_mode(shape, cipher, IV):
    import crysp.mode as md
    import crysp.padding as P
    m = shape['mode']
    pad = getattr(P, shape['pad']) if shape.get('pad') else None
    if m == 'ECB': return md.ECB(cipher, pad) if pad else md.ECB(cipher)
    if m == 'CBC': return md.CBC(cipher, IV, pad) if pad else md.CBC(cipher, IV)
    if m == 'CTR':
        if shape.get('ctr') == 'default':
            return md.CTR(cipher)
        return md.CTR(cipher, IV)
    if m == 'CTS_ECB': return md.CTS_ECB(cipher)
    if m == 'CTS_CBC': return md.CTS_CBC(cipher, IV)
    raise ValueError(m)


def lens(L, tier, lo=0):
    if L <= 16:
        return [n for n in range(lo, 3 * L + 1)]
    s = set()
    for k in range(0, 4):
        for r in (0, 1, L - 1):
            if lo <= k * L + r <= 3 * L:
                s.add(k * L + r)
    return sorted(s)


class Generic(Case):
    prop = 'C05'
    name = 'C05.generic'
    uf_concrete = UFC
    timeout_s = 600
    bounds = ('ECB and CBC with pkcs7, X923, bitpadding, Nullpadding, nopadding; CTR (IV-derived counter with SYMBOLIC nonce and counter halves incl. wrap-around); '
              'CTS_ECB, CTS_CBC; stand-in cipher (UF pair) with block size 64 and 128 bits: every |M| 0..3 blocks; 256/512/1024 bits: residues {0,1,len-1} for 0..3 blocks; '
              'checked: enc == SP 800-38A over the padded message (ECB/CBC/CTR), |CTR.enc(M)|==|M|, |CTS.enc(M)|==|M| (+IV), dec(enc(M)) == M with a second equally configured object; M and IV symbolic')
    outside = 'messages longer than 3 blocks; user-supplied counter callables; the exact byte layout of the CTS variants (only length and round trip are demanded)'
    stub_note = 'cipher.enc/dec are UFs E/D with D(E(x)) -> x and E(D(x)) -> x applied at term construction; the stand-in rejects blocks of the wrong length like the real ciphers do'

    def shapes(self, tier):
        for bits in (64, 128, 256, 512, 1024):
            L = bits // 8
            for mode in ('ECB', 'CBC'):
                for pad in ('pkcs7', 'X923', 'bitpadding', 'Nullpadding', 'nopadding'):
                    if tier == 'quick' and bits > 128 and pad in ('X923', 'Nullpadding'):
                        continue
                    for n in lens(L, tier):
                        for what in ('enc', 'rt'):
                            if what == 'rt' and pad == 'Nullpadding':
                                continue          # zero padding is not removable without side information
                            if what == 'rt' and pad == 'bitpadding' and (n % L > 1 or (n % L == 1 and bits > 128 and tier == 'quick')):
                                continue          # bitpadding.remove formats the last block as text: at most 8 symbolic bits there
                            yield dict(mode=mode, bits=bits, pad=pad, n=n, what=what)
            for n in lens(L, tier):
                for what in ('enc', 'rt'):
                    yield dict(mode='CTR', bits=bits, n=n, what=what, ctr='iv')
            for mode in ('CTS_ECB', 'CTS_CBC'):
                for n in lens(L, tier, lo=L):
                    yield dict(mode=mode, bits=bits, n=n, what='rt')

    def mk(self, shape, src):
        L = shape['bits'] // 8
        return (src.bytes('M', shape['n']), src.bytes('IV', L))

    def stubs(self, shape):
        from symx.harness import patched
        from symx.stubs import reverse_byte_patches
        st = contextlib.ExitStack()
        st.enter_context(patched(reverse_byte_patches()))
        st.enter_context(ed_pairs())
        return st

    def impl(self, shape, args):
        M, IV = args
        c = StandIn(shape['bits'], self.symbolic)
        o = make_mode(shape, c, IV)
        ct = o.enc(M)
        if shape['what'] == 'enc':
            return ct
        o2 = make_mode(shape, StandIn(shape['bits'], self.symbolic), IV)
        return dict(clen=len(ct), pt=o2.dec(ct))

    def spec(self, shape, args):
        M, IV = args
        L = shape['bits'] // 8
        c = StandIn(shape['bits'], self.symbolic)
        E = lambda blk: list(c.enc(_b(blk)))
        mode = shape['mode']
        if shape.get('ctr') == 'default':
            IV = [0] * L
        if shape['what'] == 'enc':
            return _b(spec_enc(mode, E, L, M, IV, shape.get('pad')))
        if mode in ('ECB', 'CBC'):
            ct = spec_enc(mode, E, L, M, IV, shape.get('pad'))       # raises NoClaim outside the domain
            clen = len(ct)
        elif mode == 'CTR':
            clen = shape['n']
        else:
            clen = shape['n'] + (L if mode == 'CTS_CBC' else 0)
        return dict(clen=clen, pt=M if isinstance(M, bytes) else _b(list(M)))


class Real(Case):
    prop = 'C05'
    name = 'C05.real'
    timeout_s = 900
    bounds = ('the same modes over the real cipher objects AES-128, DES, TDEA(16-byte key), Serpent(16-byte key), Threefish-256/512/1024 with key, IV and message symbolic (cipher leaves as in C02): '
              'ECB+pkcs7, CBC+pkcs7, CTR(IV) with |M| in {0, 1, len, len+1, 2*len+3}: enc == SP 800-38A over the C02 reference cipher; CTR round trip')

    @property
    def uf_concrete(self):
        from props.c02 import UFC as U
        return U

    def shapes(self, tier):
        from props import c02
        cfgs = [dict(cipher='aes128', kl=16, bl=16), dict(cipher='des', kl=8, bl=8), dict(cipher='tdea', form='s16', kl=16, bl=8),
                dict(cipher='serpent', kl=16, bl=16), dict(cipher='threefish256', kl=32, bl=32, tl=16),
                dict(cipher='threefish512', kl=64, bl=64, tl=16), dict(cipher='threefish1024', kl=128, bl=128, tl=16)]
        for cfg in cfgs:
            L = cfg['bl']
            for mode, pad in (('ECB', 'pkcs7'), ('CBC', 'pkcs7'), ('CTR', None)):
                for n in ((0, 1, L, L + 1, 2 * L + 3) if tier == 'thorough' or L <= 16 else (1, L + 1)):
                    yield dict(cfg, mode=mode, pad=pad, n=n, what='enc')
            yield dict(cfg, mode='CTR', pad=None, n=L + 1, what='rt')

    def mk(self, shape, src):
        return (src.bytes('M', shape['n']), src.bytes('IV', shape['bl']), src.bytes('K', shape['kl']), src.bytes('T', shape.get('tl', 0)))

    def stubs(self, shape):
        from symx.harness import patched
        from props import c02
        return patched(c02.patches_for(shape['cipher']))

    def impl(self, shape, args):
        from props import c02
        M, IV, K, T = args
        o = make_mode(shape, c02.real_cipher(shape, K, T), IV)
        ct = o.enc(M)
        if shape['what'] == 'enc':
            return ct
        o2 = make_mode(shape, c02.real_cipher(shape, K, T), IV)
        return dict(clen=len(ct), pt=o2.dec(ct))

    def spec(self, shape, args):
        from props import c02
        M, IV, K, T = args
        L = shape['bl']
        E = lambda blk: c02.ref_crypt(shape, K, T, blk, False, self.symbolic)
        if shape['what'] == 'enc':
            return _b(spec_enc(shape['mode'], E, L, M, IV, shape['pad']))
        return dict(clen=shape['n'], pt=M if isinstance(M, bytes) else _b(list(M)))


for c in (Generic, Real):
    register(c())


# ---- lemmas for the stubs this check relies on (see props.common.Borrowed) ----
from props.common import Borrowed, REGISTRY
from props import c01 as _c01
register(Borrowed(REGISTRY['C01.reverse_byte'], 'C05', 'reverse_byte'))
from props import c02 as _c02
register(Borrowed(REGISTRY['C02.leaf'], 'C05', 'cipher_leaves', keep=lambda sh: sh.get('fn') in ('aes.S', 'aes.Si', 'aes.gmulc', 'des.S', 'serpent.S', 'serpent.Si')))
