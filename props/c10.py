"""C10 - one-shot results depend only on the arguments, never on earlier calls.
For each object kind a small alphabet of calls (default call, call with each optional parameter, a call that raises, streaming
left unfinished, a call on a module-level shared instance) is enumerated; every history of length <= 2 (quick) / <= 3 (thorough)
is run on ONE instance with symbolic arguments and its last result must equal the same call on a freshly constructed, equally
configured object (both are runs of the real code; z3 decides equality of the two symbolic results)."""
import itertools
from props.common import Case, register, MustRaise, NoClaim


def _b(xs):
    if all(isinstance(v, int) for v in xs):
        return bytes(xs)
    from symx.core import SymBytes
    return SymBytes(xs)


class Kind(object):
    def __init__(self, name, make, calls, fresh=None, patches=None, concrete=False):
        self.name, self.make, self.calls, self.fresh, self.patches, self.concrete = name, make, calls, fresh or make, patches, concrete


def _hash_kind(name, ctor, big=False, singleton=None):
    B = 128 if big else 64

    def calls():
        return {
            'm1': lambda o, a: o(a['m1']),
            'm2': lambda o, a: o(a['m2']),
            'bits': lambda o, a: o(a['m2'], bitlen=8 * len(a['m2']) - 3),
            'bad': lambda o, a: o(a['m1'], bitlen=8 * len(a['m1']) + 1),
            'stream': lambda o, a: o.update(a['blk'][:B], padding=False),
        }
    mk = (lambda a: singleton()) if singleton else (lambda a: ctor())
    return Kind(name, mk, calls(), fresh=lambda a: ctor(), patches='hash:' + ('sha512' if big else 'sha256'))


def kinds():
    K = {}
    import crysp.sha as sha
    import crysp.md as md
    import crysp.blake as bl
    import crysp.keccak as kk
    K['sha1'] = _hash_kind('sha1', lambda: sha.SHA1())
    K['sha256'] = _hash_kind('sha256', lambda: sha.SHA2(256))
    K['sha512_256'] = _hash_kind('sha512_256', lambda: sha.SHA2(512, 256), big=True)
    K['md4'] = _hash_kind('md4', lambda: md.MD4())
    K['md5'] = _hash_kind('md5', lambda: md.MD5())
    # BLAKE: object and module singleton
    bc = {
        'm1': lambda o, a: o(a['m1']),
        'm2': lambda o, a: o(a['m2']),
        'salt': lambda o, a: o(a['m1'], a['salt']),
        'bits': lambda o, a: o(a['m2'], 0, bitlen=8 * len(a['m2']) - 5),
        'bad': lambda o, a: o(a['m1'], 0, bitlen=8 * len(a['m1']) + 8),
        'stream': lambda o, a: o.update(a['blk'][:64], padding=False),
    }
    K['blake256'] = Kind('blake256', lambda a: bl.Blake(256), bc)
    K['blake256.singleton'] = Kind('blake256.singleton', lambda a: bl.blake256, bc, fresh=lambda a: bl.Blake(256))
    b2 = {
        'm1': lambda o, a: o(a['m1']),
        'm2': lambda o, a: o(a['m2']),
        'outlen': lambda o, a: o(a['m1'], outlen=20),
        'salt': lambda o, a: o(a['m1'], salt=a['s8'], pers=a['p8']),
        'tree': lambda o, a: o(a['m1'], fanout=2, depth=3, leafl=5, noffset=7, ndepth=1, inner=16),
        'bad': lambda o, a: o(a['m1'], outlen=33),
        'long': lambda o, a: o(a['blk'][:70]),
    }
    K['blake2s'] = Kind('blake2s', lambda a: bl.Blake2(256), b2)
    K['blake2s.singleton'] = Kind('blake2s.singleton', lambda a: bl.blake2s, b2, fresh=lambda a: bl.Blake2(256))
    kc = {
        'm1': lambda o, a: o(a['m1']),
        'm2': lambda o, a: o(a['m2']),
        'bits': lambda o, a: o(a['m2'], bitlen=8 * len(a['m2']) - 3),
        'rate': lambda o, a: o(a['m1'], r=72),
        'duplex': lambda o, a: o.duplex(a['m1'][:1], bitlen=5, outlen=16),
        'bad': lambda o, a: o(a['m1'], bitlen=8 * len(a['m1']) + 1),
        'badrate': lambda o, a: o(a['m1'], bitlen=8 * len(a['m1']) + 1, r=72),
    }
    K['keccak200'] = Kind('keccak200', lambda a: kk.Keccak(b=200, r=40, len=64), kc)
    K['keccak_256.singleton'] = Kind('keccak_256.singleton', lambda a: kk.keccak_256, {k: v for k, v in kc.items() if k in ('m1', 'm2', 'bits', 'bad', 'badrate')},
                                     fresh=lambda a: kk.Keccak(b=1600, c=512, len=256))
    K['sha3_256'] = Kind('sha3_256', lambda a: sha.SHA3(256), {'m1': lambda o, a: o(a['m1']), 'm2': lambda o, a: o(a['m2']),
                                                                 'raw': lambda o, a: kk.Keccak.__call__(o, a['m1'], bitlen=5)})
    # MD6 (keyed, tree and sequential) and Skein (keyed; tree parameters) - Skein keeps its chaining value G on the object
    def _md6(a, L):
        h = md.MD6(256, a['k1'], L)
        h.rounds = 2
        return h
    m6 = {
        'm1': lambda o, a: o(a['m1']),
        'm2': lambda o, a: o(a['m2']),
        'bits': lambda o, a: o(a['m2'], bitlen=8 * len(a['m2']) - 3),
        'long': lambda o, a: o(a['blk'][:100] * 6),
        'bad': lambda o, a: o(a['m1'], bitlen=8 * len(a['m1']) + 9),
    }
    K['md6'] = Kind('md6', lambda a: _md6(a, 64), m6)
    K['md6.seq'] = Kind('md6.seq', lambda a: _md6(a, 0), m6)
    import crysp.skein as skn
    skc = {
        'm1': lambda o, a: o(a['m1']),
        'm2': lambda o, a: o(a['m2']),
        'bits': lambda o, a: o(a['m2'], bitlen=8 * len(a['m2']) - 3),
        'long': lambda o, a: o(a['blk'][:70]),
        'upd': lambda o, a: o.update(a['m2']),
        'bad': lambda o, a: o(a['m1'], bitlen=8 * len(a['m1']) + 9),
    }
    K['skein256'] = Kind('skein256', lambda a: skn.Skein(256, 256, key=a['k1'], prs=a['k2']), skc, patches='skein')
    K['skein256.tree'] = Kind('skein256.tree', lambda a: skn.Skein(256, 256, Yl=1, Yf=1, Ym=2), {k: v for k, v in skc.items() if k in ('m1', 'long', 'upd')}, patches='skein')
    # HMAC
    from crysp.hmac import HMAC
    hc = {
        'm1': lambda o, a: o(a['m1']),
        'm2': lambda o, a: o(a['m2']),
        'rekey': lambda o, a: o.setkey(a['k2']),
        'rekeymac': lambda o, a: (o.setkey(a['k2']), o(a['m1']))[1],
    }
    K['hmac_sha1'] = Kind('hmac_sha1', lambda a: HMAC(sha.SHA1(), a['k1']), {k: v for k, v in hc.items() if k != 'rekey' and k != 'rekeymac'}, patches='hash:sha1')
    # block ciphers
    import crysp.aes as aes
    import crysp.des as des
    import crysp.serpent as sp
    import crysp.threefish as tf
    cc = {
        'enc1': lambda o, a: o.enc(a['b1']),
        'enc2': lambda o, a: o.enc(a['b2']),
        'dec1': lambda o, a: o.dec(a['b1']),
        'bad': lambda o, a: o.enc(a['b1'][:-1]),
        'baddec': lambda o, a: o.dec(a['b1'][:-1]),
    }
    K['aes128'] = Kind('aes128', lambda a: aes.AES(a['k16']), cc, patches='aes128')
    K['aes128.other'] = Kind('aes128.other', lambda a: (aes.AES(a['k16b']).enc(a['b2']), aes.AES(a['k16']))[1], cc, fresh=lambda a: aes.AES(a['k16']), patches='aes128')
    c8 = {k: (lambda f: lambda o, a: f(o, dict(a, b1=a['b1'][:8], b2=a['b2'][:8])))(v) for k, v in cc.items()}
    K['des'] = Kind('des', lambda a: des.DES(a['k16'][:8]), c8, patches='des')
    K['tdea'] = Kind('tdea', lambda a: des.TDEA(a['k16']), c8, patches='tdea')
    K['serpent'] = Kind('serpent', lambda a: sp.Serpent(a['k16']), cc, patches='serpent')
    c32 = {k: (lambda f: lambda o, a: f(o, dict(a, b1=a['b1'] + a['b2'], b2=a['b2'] + a['b1'])))(v) for k, v in cc.items()}
    K['threefish256'] = Kind('threefish256', lambda a: tf.Threefish(a['k16'] + a['k16b'], a['b2']), c32)
    # modes over a stand-in cipher
    import crysp.mode as mode
    from props.c05 import StandIn
    mc = {
        'enc1': lambda o, a: o.enc(a['m1']),
        'enc2': lambda o, a: o.enc(a['m2']),
        'encblk': lambda o, a: o.enc(a['b1']),
        'decenc': lambda o, a: o.dec(o.enc(a['m1'])),
        'baddec': lambda o, a: o.dec(a['m1']),
    }
    sym = lambda a: StandIn(128, a['__symbolic__'])
    K['ecb'] = Kind('ecb', lambda a: mode.ECB(sym(a)), mc, patches='ed')
    K['cbc'] = Kind('cbc', lambda a: mode.CBC(sym(a), a['b2']), mc, patches='ed')
    K['ctr'] = Kind('ctr', lambda a: mode.CTR(sym(a), a['b2']), mc, patches='ed')
    K['cts_ecb'] = Kind('cts_ecb', lambda a: mode.CTS_ECB(sym(a)), {'e1': lambda o, a: o.enc(a['blk'][:19]), 'e2': lambda o, a: o.enc(a['blk'][:32]), 'd': lambda o, a: o.dec(o.enc(a['blk'][:21]))}, patches='ed')
    K['cts_cbc'] = Kind('cts_cbc', lambda a: mode.CTS_CBC(sym(a), a['b2']), {'e1': lambda o, a: o.enc(a['blk'][:19]), 'e2': lambda o, a: o.enc(a['blk'][:32]), 'd': lambda o, a: o.dec(o.enc(a['blk'][:21]))}, patches='ed')
    # stream ciphers
    from crysp.bits import Bits
    import crysp.salsa20 as s20
    import crysp.chacha as cha
    sc = {
        'e1': lambda o, a: o.enc(Bits(a['b1'][:8], bitorder=1), a['m1']),
        'e2': lambda o, a: o.enc(Bits(a['b2'][:8], bitorder=1), a['m2']),
        'long': lambda o, a: o.enc(Bits(a['b1'][:8], bitorder=1), a['blk'][:70]),
        'd1': lambda o, a: o.dec(Bits(a['b1'][:8], bitorder=1), a['m1']),
    }
    K['salsa20'] = Kind('salsa20', lambda a: s20.Salsa20(Bits(a['k16'], bitorder=1), 8), sc)
    K['chacha'] = Kind('chacha', lambda a: cha.Chacha(Bits(a['k16'] + a['k16b'], bitorder=1), 8), sc)
    # crc (module functions: no object state, but module tables)
    import crysp.crc as crc
    K['crc32'] = Kind('crc32', lambda a: crc, {'c1': lambda o, a: o.crc32(a['m1']), 'c2': lambda o, a: o.crc32(a['m2']),
                                                'fix': lambda o, a: o.crc32_fix(a['b1'][:6], 0x12345678), 'gen': lambda o, a: o.crc(a['m1'], o.crc_table(o.POLY32_1), 5, 9)})
    # similarity digests: data-dependent sorting / float code -> concrete inputs only (state reset logic does not depend on data)
    import crysp.nilsimsa as nil
    import crysp.tlsh as tl
    T1 = bytes((7 * i * i + 3 * i + 1) & 0xff for i in range(80))
    T2 = bytes((11 * i * i + 5 * i + 2) & 0xff for i in range(120))
    T3 = bytes(((i * i * i) ^ (i * 13 + 7) ^ (i >> 3)) & 0xff for i in range(300))        # long enough for a digest without force
    T4 = bytes(((i * i * 5) ^ (i * 29 + 3) ^ (i >> 2)) & 0xff for i in range(400))
    nc = {'a': lambda o, a: o(T1), 'b': lambda o, a: o(T2), 'upd': lambda o, a: o.update(T1[:9]) and None}
    K['nilsimsa'] = Kind('nilsimsa', lambda a: nil.Nilsimsa(), nc, concrete=True)
    # a: digest, b: another digest, none: too short without force (returns None), forced: the same input forced, short: below the
    # hard minimum (None even when forced), upd: streaming left unfinished
    tc = {'a': lambda o, a: o(T3), 'b': lambda o, a: o(T4), 'none': lambda o, a: o(T2), 'forced': lambda o, a: o(T2, True),
          'short': lambda o, a: o(T1[:10], True), 'upd': lambda o, a: o.update(T2[:30]) and None}
    K['tlsh'] = Kind('tlsh', lambda a: tl.TLSH(128), tc, concrete=True)
    K['tlsh.singleton'] = Kind('tlsh.singleton', lambda a: tl.tlsh, tc, fresh=lambda a: tl.TLSH(128), concrete=True)
    K['tlsh48'] = Kind('tlsh48', lambda a: tl.TLSH(48, wndsize=4, chklen=3), tc, concrete=True)
    return K


KINDNAMES = ['sha1', 'sha256', 'sha512_256', 'md4', 'md5', 'blake256', 'blake256.singleton', 'blake2s', 'blake2s.singleton', 'keccak200',
             'keccak_256.singleton', 'sha3_256', 'md6', 'md6.seq', 'skein256', 'skein256.tree', 'hmac_sha1', 'aes128', 'aes128.other', 'des', 'tdea', 'serpent', 'threefish256', 'ecb', 'cbc', 'ctr',
             'cts_ecb', 'cts_cbc', 'salsa20', 'chacha', 'crc32', 'nilsimsa', 'tlsh', 'tlsh.singleton', 'tlsh48']

CALLS = {
    'sha1': ['m1', 'm2', 'bits', 'bad', 'stream'], 'sha256': ['m1', 'm2', 'bits', 'bad', 'stream'], 'sha512_256': ['m1', 'm2', 'bits', 'bad', 'stream'],
    'md4': ['m1', 'm2', 'bits', 'bad', 'stream'], 'md5': ['m1', 'm2', 'bits', 'bad', 'stream'],
    'blake256': ['m1', 'm2', 'salt', 'bits', 'bad', 'stream'], 'blake256.singleton': ['m1', 'm2', 'salt', 'bits', 'bad', 'stream'],
    'blake2s': ['m1', 'm2', 'outlen', 'salt', 'tree', 'bad', 'long'], 'blake2s.singleton': ['m1', 'm2', 'outlen', 'salt', 'tree', 'bad', 'long'],
    'keccak200': ['m1', 'm2', 'bits', 'rate', 'duplex', 'bad', 'badrate'], 'keccak_256.singleton': ['m1', 'm2', 'bits', 'bad', 'badrate'], 'sha3_256': ['m1', 'm2', 'raw'],
    'hmac_sha1': ['m1', 'm2'],
    'md6': ['m1', 'm2', 'bits', 'long', 'bad'], 'md6.seq': ['m1', 'm2', 'bits', 'long', 'bad'],
    'skein256': ['m1', 'm2', 'bits', 'long', 'upd', 'bad'], 'skein256.tree': ['m1', 'long', 'upd'],
    'aes128': ['enc1', 'enc2', 'dec1', 'bad', 'baddec'], 'aes128.other': ['enc1', 'dec1'], 'des': ['enc1', 'enc2', 'dec1', 'bad', 'baddec'], 'tdea': ['enc1', 'dec1', 'bad', 'baddec'],
    'serpent': ['enc1', 'enc2', 'dec1', 'bad', 'baddec'], 'threefish256': ['enc1', 'enc2', 'dec1', 'bad', 'baddec'],
    'ecb': ['enc1', 'enc2', 'encblk', 'decenc', 'baddec'], 'cbc': ['enc1', 'enc2', 'encblk', 'decenc', 'baddec'], 'ctr': ['enc1', 'enc2', 'encblk', 'decenc'],
    'cts_ecb': ['e1', 'e2', 'd'], 'cts_cbc': ['e1', 'e2', 'd'],
    'salsa20': ['e1', 'e2', 'long', 'd1'], 'chacha': ['e1', 'e2', 'long', 'd1'],
    'crc32': ['c1', 'c2', 'fix', 'gen'], 'nilsimsa': ['a', 'b', 'upd'], 'tlsh': ['a', 'b', 'none', 'forced', 'short', 'upd'], 'tlsh.singleton': ['a', 'b', 'none', 'forced', 'short', 'upd'],
    'tlsh48': ['a', 'none', 'forced', 'upd'],
}
# calls whose own result is not a value to compare (they only disturb state)
NOISE = {'stream', 'upd', 'rekey', 'duplex', 'badrate', 'baddec'}      # duplex() is a stateful construction by design: only used as a disturbing call


class History(Case):
    prop = 'C10'
    name = 'C10.history'
    timeout_s = 900
    bounds = ('object kinds: SHA1, SHA2(256), SHA2(512,256), MD4, MD5, Blake(256) and the blake256 singleton, Blake2(256) and the blake2s singleton, Keccak(b=200) and the keccak_256 singleton, SHA3(256), keyed MD6 (tree and sequential mode, 2 rounds), keyed Skein-256 and Skein-256 with tree parameters (Threefish uninterpreted), '
              'HMAC(SHA1), AES, AES after another instance was used, DES, TDEA, Serpent, Threefish-256, ECB/CBC/CTR/CTS_ECB/CTS_CBC over a stand-in cipher, Salsa20, Chacha, crc module, '
              'Nilsimsa, TLSH(128), TLSH(48,4,3) and the tlsh singleton (the last four on concrete inputs: two digests, a too-short input answering None, the same forced, an input below the hard minimum, unfinished update); per-kind alphabets of 2..7 calls incl. optional parameters, raising calls and unfinished streaming; '
              'every history of length <= 2 (quick) / <= 3 (thorough) ending in a value-returning call; arguments symbolic')
    outside = 'histories longer than 3; similarity digests only on two concrete inputs'

    @property
    def uf_concrete(self):
        from props import c01, c02, c05
        d = dict(c01.UFC)
        d.update(c02.UFC)

        class D(dict):
            def __missing__(s, k):
                if k.startswith('TF'):
                    from props import c12
                    return c12.UFC[k]
                return c05.UFC[k]
        r = D(d)
        return r

    def shapes(self, tier):
        L = 2 if tier == 'quick' else 3
        for kind in KINDNAMES:
            calls = CALLS[kind]
            for n in range(1, L + 1):
                for h in itertools.product(calls, repeat=n):
                    if h[-1] in NOISE:
                        continue
                    if n == 1:
                        continue            # a single call on a fresh object is trivially the fresh result (kept only for singletons below)
                    if n == 3 and tier == 'thorough' and len(calls) > 4 and not (h[0] != h[1]):
                        continue
                    yield dict(kind=kind, hist=list(h))
            if kind.endswith('.singleton') or kind.endswith('.other'):
                for c in calls:
                    if c not in NOISE:
                        yield dict(kind=kind, hist=[c])

    def mk(self, shape, src):
        a = dict(m1=src.bytes('m1', 3), m2=src.bytes('m2', 5), blk=src.bytes('blk', 128), salt=src.int('salt', 128), s8=src.bytes('s8', 8), p8=src.bytes('p8', 8),
                 k1=src.bytes('k1', 4), k2=src.bytes('k2', 7), k16=src.bytes('k16', 16), k16b=src.bytes('k16b', 16), b1=src.bytes('b1', 16), b2=src.bytes('b2', 16))
        return (a,)

    def stubs(self, shape):
        import contextlib
        from symx.harness import patched
        from symx.stubs import reverse_byte_patches
        K = kinds()[shape['kind']]
        st = contextlib.ExitStack()
        ps = reverse_byte_patches()
        if K.patches and K.patches.startswith('hash:'):
            from props import c01
            ps = c01.hash_patches(K.patches[5:])
        elif K.patches in ('aes128', 'des', 'tdea', 'serpent'):
            from props import c02
            ps = c02.patches_for(K.patches)
        if K.patches == 'skein':
            from props import c12
            import crysp.skein as sk
            ps = ps + [(sk, 'Threefish', c12.tf_stub())]
        st.enter_context(patched(ps))
        if K.patches == 'ed':
            from props import c05
            st.enter_context(c05.ed_pairs())
        return st

    def _run(self, K, o, call, a):
        return K.calls[call](o, a)

    def impl(self, shape, args):
        a = dict(args[0], __symbolic__=self.symbolic)
        K = kinds()[shape['kind']]
        o = K.make(a)
        for c in shape['hist'][:-1]:
            try:
                self._run(K, o, c, a)
            except Exception as e:
                if type(e).__name__ == 'Leak':
                    raise
        try:
            return ['ok', self._run(K, o, shape['hist'][-1], a)]
        except Exception as e:
            if type(e).__name__ == 'Leak':
                raise
            return ['raised']

    def spec(self, shape, args):
        a = dict(args[0], __symbolic__=self.symbolic)
        K = kinds()[shape['kind']]
        o = K.fresh(a)
        try:
            return ['ok', self._run(K, o, shape['hist'][-1], a)]
        except Exception as e:
            if type(e).__name__ == 'Leak':
                raise
            return ['raised']


class CrossKey(Case):
    """state shared between INSTANCES (class-level caches, module tables): an object is used, then a second object of the same class
    with a related key - same bytes zero-extended to another key size, a parity twin, the same key - encrypts a symbolic block; the
    result must equal the reference cipher (a 'fresh object' of the same process would share the polluted class state)."""
    prop = 'C10'
    name = 'C10.crosskey'
    timeout_s = 600
    bounds = ('AES with concrete key pairs (k, k zero-extended to 24 and 32 bytes; all-zero keys of the three sizes; identical keys), DES with parity-twin keys, Serpent with a key and its zero-extension / its padded equivalent / itself, Threefish-256 with the same key under two tweaks and two keys under one tweak: first object encrypts, second object '
              'encrypts/decrypts a SYMBOLIC block == reference cipher (leaves as in C02)')

    @property
    def uf_concrete(self):
        from props import c02
        return c02.UFC

    def shapes(self, tier):
        z16, p16 = '00' * 16, '000102030405060708090a0b0c0d0e0f'
        for k1, k2 in ((z16, '00' * 24), (z16, '00' * 32), ('00' * 24, z16), (p16, p16 + '00' * 8), (p16, p16 + '00' * 16), (p16 + '00' * 8, p16), (p16, p16)):
            for d in ('enc', 'dec'):
                yield dict(cipher='aes', k1=k1, k2=k2, dir=d)
        for k1, k2 in (('0123456789abcdef', '0022446688aaccee'), ('0022446688aaccee', '0123456789abcdef')):
            yield dict(cipher='des', k1=k1, k2=k2, dir='enc')
        # Serpent: a short key and the 256-bit key it is padded to are equivalent BY DESIGN (1 bit then zeros) - a cache may serve
        # either; the same bytes zero-extended are a DIFFERENT key.  Threefish: same key under two tweaks.
        s16 = '0f1e2d3c4b5a69788796a5b4c3d2e1f0'
        for k1, k2 in ((s16, s16 + '00' * 16), (s16 + '00' * 16, s16), (s16, s16 + '01' + '00' * 15), (s16, s16)):
            for d in ('enc', 'dec'):
                yield dict(cipher='serpent', k1=k1, k2=k2, dir=d)
        t1, t2 = '00' * 16, '01' + '00' * 15
        for d in ('enc', 'dec'):
            yield dict(cipher='threefish', k1=s16 * 2, k2=s16 * 2, t1=t1, t2=t2, dir=d)
            yield dict(cipher='threefish', k1=s16 * 2, k2='00' * 32, t1=t1, t2=t1, dir=d)

    BL = {'aes': 16, 'des': 8, 'serpent': 16, 'threefish': 32}
    REF = {'aes': 'aes128', 'des': 'des', 'serpent': 'serpent', 'threefish': 'threefish256'}

    def mk(self, shape, src):
        n = self.BL[shape['cipher']]
        return (src.bytes('B', n), src.bytes('B0', n))

    def stubs(self, shape):
        from symx.harness import patched
        from props import c02
        return patched(c02.patches_for(self.REF[shape['cipher']]))

    def impl(self, shape, args):
        k1, k2 = bytes.fromhex(shape['k1']), bytes.fromhex(shape['k2'])
        c = shape['cipher']
        if c == 'threefish':
            from crysp.threefish import Threefish
            a = Threefish(k1, bytes.fromhex(shape['t1']))
            a.enc(args[1])
            b = Threefish(k2, bytes.fromhex(shape['t2']))
        else:
            if c == 'aes':
                from crysp.aes import AES as C
            elif c == 'des':
                from crysp.des import DES as C
            else:
                from crysp.serpent import Serpent as C
            a = C(k1)
            a.enc(args[1])
            b = C(k2)
        return b.enc(args[0]) if shape['dir'] == 'enc' else b.dec(args[0])

    def spec(self, shape, args):
        from props import c02
        k2 = bytes.fromhex(shape['k2'])
        sh = dict(cipher=self.REF[shape['cipher']])
        t = list(bytes.fromhex(shape['t2'])) if shape['cipher'] == 'threefish' else None
        return _b(c02.ref_crypt(sh, list(k2), t, list(args[0]), shape['dir'] == 'dec', self.symbolic))


register(History())
register(CrossKey())


# ---- lemmas for the stubs this check relies on (see props.common.Borrowed) ----
from props.common import Borrowed, REGISTRY
from props import c01 as _c01
register(Borrowed(REGISTRY['C01.reverse_byte'], 'C10', 'reverse_byte'))
register(Borrowed(REGISTRY['C01.leaf'], 'C10', 'hash_leaves'))
from props import c02 as _c02
register(Borrowed(REGISTRY['C02.leaf'], 'C10', 'cipher_leaves', keep=lambda sh: sh.get('fn') in ('aes.S', 'aes.Si', 'aes.gmulc', 'des.S', 'serpent.S', 'serpent.Si')))
