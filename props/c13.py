"""C13 - HMAC equals RFC 2104 for every hash with a block size, every key length and message.
(1) over a stand-in hash that is an uninterpreted function per input length (one obligation covers every hash);
(2) over the real MD4/MD5/SHA-1/SHA-2 objects of the library with their non-linear leaves uninterpreted (as C01)."""
from props.common import Case, register, MustRaise, NoClaim


def _b(xs):
    if all(isinstance(v, int) for v in xs):
        return bytes(xs)
    from symx.core import SymBytes
    return SymBytes(xs)


def conc_hash(dsize):
    import hashlib

    def H(m):
        return hashlib.sha512(b'stand-in' + bytes(m)).digest()[:dsize]
    return H


class _UFC(dict):
    "concrete interpretation of the stand-in hash UFs: name 'H<len>_<dsize>' -> function on the input as one big-endian integer"
    def __missing__(self, name):
        if not name.startswith('H'):
            raise KeyError(name)
        ln, ds = name[1:].split('_')
        ln, ds = int(ln), int(ds)
        H = conc_hash(ds)

        def f(x=0):
            return int.from_bytes(H(x.to_bytes(ln, 'big') if ln else b''), 'big')
        self[name] = f
        return f


UFC = _UFC()


class StandIn(object):
    "hash object with the interface HMAC needs; symbolic mode: UF per input length"
    def __init__(self, blocksize, dsize, symbolic):
        self.blocksize = blocksize
        self.dsize = dsize
        self.symbolic = symbolic

    def __call__(self, m):
        if not self.symbolic:
            return conc_hash(self.dsize)(m)
        from symx import ir, core
        m = list(m)
        name = 'H%d_%d' % (len(m), self.dsize)
        if all(isinstance(x, int) for x in m):
            return conc_hash(self.dsize)(bytes(m))
        n = ir.cat([core.to_n(x, 8) for x in reversed(m)])
        r = ir.uf(8 * self.dsize, name, [n])
        return _b([core.from_n(ir.slc(r, 8 * (self.dsize - 1 - i), 8)) for i in range(self.dsize)])


def rfc2104(H, bs, K, M):
    "RFC 2104: H((K' ^ opad) || H((K' ^ ipad) || M)); bs = block size in bytes"
    K = list(K)
    if len(K) > bs:
        K = list(H(_b(K)))
    K = K + [0] * (bs - len(K))
    ipad = [x ^ 0x36 for x in K]
    opad = [x ^ 0x5c for x in K]
    inner = list(H(_b(ipad + list(M))))
    return H(_b(opad + inner))


class Generic(Case):
    prop = 'C13'
    name = 'C13.generic'
    uf_concrete = UFC
    bounds = ('HMAC over a stand-in hash (uninterpreted function per input length; block size 512 and 1024 bits, digest 16/20/32/64 bytes): '
              'EVERY key length 0..2*blocksize+1 bytes, |M| in {0,1,blocksize} (thorough: also blocksize-1, blocksize+1, 2*blocksize+3); key and message symbolic; histories on one object: setkey(K1);setkey(K2);mac - mac(K1);setkey(K2);mac - mac;mac (last result == fresh object)')
    stub_note = 'the hash is an uninterpreted function H_len: the obligation therefore holds for any deterministic hash with that block size'

    def shapes(self, tier):
        for bs, ds in ((64, 20), (64, 16), (64, 32), (128, 64), (128, 48)):
            kls = range(0, 2 * bs + 2)
            for kl in kls:
                if tier == 'quick' and ds in (16, 32, 48) and kl not in (0, 1, ds - 1, ds, ds + 1, bs - 1, bs, bs + 1, 2 * bs):
                    continue
                for ml in ((1,) if tier == 'quick' and kl % 8 else ((0, 1, bs) if tier == 'quick' else (0, 1, bs - 1, bs, bs + 1, 2 * bs + 3))):
                    yield dict(bs=bs, ds=ds, kl=kl, ml=ml)
            for k1, k2 in ((3, bs + 5), (bs + 5, 3), (bs, 0), (0, bs), (bs + 1, bs + 2)):
                yield dict(bs=bs, ds=ds, kl=k2, ml=2, k1=k1)
                yield dict(bs=bs, ds=ds, kl=k2, ml=2, k1=k1, hist='mac-rekey-mac')
            yield dict(bs=bs, ds=ds, kl=7, ml=2, k1=7, hist='mac-mac')

    def mk(self, shape, src):
        return (src.bytes('K', shape['kl']), src.bytes('M', shape['ml']), src.bytes('J', shape.get('k1', 0)))

    def impl(self, shape, args):
        from crysp.hmac import HMAC
        h = StandIn(8 * shape['bs'], shape['ds'], self.symbolic)
        if shape.get('hist') == 'mac-rekey-mac':
            o = HMAC(h, args[2])
            o(args[2] + args[1])              # a MAC under the old key first
            o.setkey(args[0])
        elif shape.get('hist') == 'mac-mac':
            o = HMAC(h, args[0])
            o(args[2])
        elif 'k1' in shape:
            o = HMAC(h, args[2])
            o.setkey(args[0])
        else:
            o = HMAC(h, args[0])
        return o(args[1])

    def spec(self, shape, args):
        h = StandIn(8 * shape['bs'], shape['ds'], self.symbolic)
        return rfc2104(h, shape['bs'], args[0], args[1])


class Real(Case):
    prop = 'C13'
    name = 'C13.real'
    timeout_s = 600
    bounds = ('HMAC over the real MD4, MD5, SHA-1, SHA-224/256/384/512, SHA-512/224, SHA-512/256 objects (leaves uninterpreted, lemmas in C01.leaf) and the BLAKE-224/256/384/512 objects (no abstraction): '
              'key lengths {0,1,bs-1,bs,bs+1,2bs}, |M| in {0,3}; spec = RFC 2104 over the C01 reference models (hmac/hashlib cross-check on replay)')

    def shapes(self, tier):
        from refs.mdsha import ALGOS, BLOCK
        for algo in ALGOS:
            if algo == 'sha0':
                continue
            bs = BLOCK[algo]
            for kl in (0, 1, bs - 1, bs, bs + 1, 2 * bs):
                for ml in ((3,) if tier == 'quick' else (0, 3, bs)):
                    yield dict(algo=algo, kl=kl, ml=ml)
        for size in (224, 256, 384, 512):
            bs = 64 if size <= 256 else 128
            for kl in (0, 1, bs - 1, bs, bs + 1, 2 * bs):
                if tier == 'quick' and size in (224, 384) and kl not in (1, bs + 1):
                    continue
                yield dict(algo='blake%d' % size, kl=kl, ml=3)

    def mk(self, shape, src):
        return (src.bytes('K', shape['kl']), src.bytes('M', shape['ml']))

    def stubs(self, shape):
        from symx.harness import patched
        from props.c01 import hash_patches
        if shape['algo'].startswith('blake'):
            from symx.stubs import reverse_byte_patches
            return patched(reverse_byte_patches())
        return patched(hash_patches(shape['algo']))

    @property
    def uf_concrete(self):
        from props.c01 import UFC as U
        return U

    def impl(self, shape, args):
        from crysp.hmac import HMAC
        from props.c01 import make, stub_obj
        if shape['algo'].startswith('blake'):
            from crysp.blake import Blake
            return HMAC(Blake(int(shape['algo'][5:])), args[0])(args[1])
        h = make(shape['algo'])
        if self.symbolic:
            stub_obj(h, shape['algo'])
        return HMAC(h, args[0])(args[1])

    def spec(self, shape, args):
        from refs import mdsha
        from props.c01 import UFLeaves
        algo = shape['algo']
        if algo.startswith('blake'):
            from refs import blake as RB
            size = int(algo[5:])
            return rfc2104(lambda m: _b(RB.blake(size, list(m))), 64 if size <= 256 else 128, args[0], args[1])
        leaves = UFLeaves if self.symbolic else mdsha.StdLeaves
        H = lambda m: _b(mdsha.digest(algo, list(m), None, leaves))
        r = rfc2104(H, mdsha.BLOCK[algo], args[0], args[1])
        if not self.symbolic:
            import hmac as pyhmac, hashlib
            try:
                want = pyhmac.new(bytes(args[0]), bytes(args[1]), algo).digest()
            except Exception:
                want = None
            assert want is None or want == bytes(r), 'reference HMAC disagrees with the hmac module'
        return r


for c in (Generic, Real):
    register(c())


# ---- lemmas for the stubs this check relies on (see props.common.Borrowed) ----
from props.common import Borrowed, REGISTRY
from props import c01 as _c01
register(Borrowed(REGISTRY['C01.reverse_byte'], 'C13', 'reverse_byte'))
register(Borrowed(REGISTRY['C01.leaf'], 'C13', 'hash_leaves'))
