"""C07 - Bits construction and conversions are faithful under every bit order.
Sizes / byte counts / bit orders are enumerated; every payload bit and every input byte is a solver variable."""
from props.common import Case, register, MustRaise, NoClaim


def _bits():
    from crysp.bits import Bits
    return Bits


def st(x):
    return [x.ival, x.size, x.mask]


def M(w):
    return (1 << w) - 1


def rev8(b):
    r = 0
    for i in range(8):
        r = r | (((b >> i) & 1) << (7 - i))
    return r


def model_load(s, bitorder):
    "documented meaning of Bits(bytes, bitorder=...) -> integer payload (bit 0 = LSB)"
    L = len(s)
    if bitorder < 0:
        f, k = rev8, -bitorder
    elif bitorder > 0:
        f, k = (lambda x: x), bitorder
    else:
        f, k = (lambda x: x), L
    if L == 0:
        return 0
    if L % k != 0:
        raise MustRaise()
    v = 0
    for g in range(L // k):
        x = 0
        for b in s[g * k:(g + 1) * k]:
            x = (x << 8) | f(b)
        v = v | (x << (8 * k * g))
    return v


class FromBytes(Case):
    prop = 'C07'
    name = 'C07.frombytes'
    bounds = 'Bits(s, size, bitorder): |s| in 0..8 (quick) / 0..40 (thorough, bitorders -1,+1,0 and two divisors beyond 12 bytes), bitorder in {-1,+1,0,+-k for every k dividing |s|, one non-divisor (must raise)}, size in {None, 8|s|-3, 8|s|+5}; all bytes symbolic'

    def shapes(self, tier):
        Ls = range(0, 9) if tier == 'quick' else range(0, 41)
        for L in Ls:
            bos = [-1, 1, 0]
            divs = [k for k in range(2, L + 1) if L % k == 0]
            if L > 12:
                divs = divs[:1] + divs[-1:]
            for k in divs:
                bos += [k, -k]
            nd = [k for k in range(2, L + 2) if L and L % k != 0]
            if nd:
                bos += [nd[0], -nd[-1]]
            for bo in bos:
                for sz in (None, 8 * L - 3, 8 * L + 5):
                    if sz is not None and (sz < 0 or (L > 12 and sz > 8 * L)):
                        continue
                    yield dict(L=L, bo=bo, size=sz)

    def mk(self, shape, src):
        return (src.bytes('s', shape['L']),)

    def impl(self, shape, args):
        Bits = _bits()
        if shape['size'] is None:
            b = Bits(args[0], bitorder=shape['bo'])
        else:
            b = Bits(args[0], shape['size'], shape['bo'])
        return st(b)

    def spec(self, shape, args):
        s, L, bo = args[0], shape['L'], shape['bo']
        if L == 0 and bo != 0 and False:
            raise NoClaim()
        if L == 0:
            k = abs(bo)
            # 0 % k == 0 for every k: the empty string is admissible
        v = model_load(s, bo)
        n = 8 * L if shape['size'] is None else shape['size']
        return [v & M(n), n, M(n)]


class FromInt(Case):
    prop = 'C07'
    name = 'C07.fromint'
    bounds = 'Bits(x,n) for n in 0..16 (quick) / 0..72 + {127,128,129,255,256,257} (thorough) with x any value below 2^(n+3) (higher bits must be cleared); Bits(x) without size for x below 2^n, n<=16 (size = bit length); Bits(list of n bits); Bits(Bits) with and without a new size'

    def shapes(self, tier):
        ns = list(range(0, 17)) if tier == 'quick' else list(range(0, 131)) + [255, 256, 257, 511, 512, 513, 1023, 1024, 1025]
        for n in ns:
            yield dict(kind='int', n=n)
            yield dict(kind='list', n=n)
            for d in (None, -2, 3):
                if d is None or n + d >= 0:
                    yield dict(kind='copy', n=n, d=d)
            if n <= 16:
                yield dict(kind='nosize', n=n)

    def mk(self, shape, src):
        n = shape['n']
        if shape['kind'] == 'int':
            return (src.int('x', n + 3),)
        return (src.int('x', n),)

    def impl(self, shape, args):
        Bits = _bits()
        n, x = shape['n'], args[0]
        if shape['kind'] == 'int':
            return st(Bits(x, n))
        if shape['kind'] == 'nosize':
            return st(Bits(x))
        if shape['kind'] == 'list':
            return st(Bits([(x >> i) & 1 for i in range(n)]))
        a = Bits(x, n)
        d = shape['d']
        c = Bits(a) if d is None else Bits(a, n + d)
        return dict(c=st(c), a=st(a))

    def spec(self, shape, args):
        n, x = shape['n'], args[0]
        if shape['kind'] == 'int':
            return [x & M(n), n, M(n)]
        if shape['kind'] == 'nosize':
            k = x.bit_length()
            return [x, k, M(k)]
        if shape['kind'] == 'list':
            return [x, n, M(n)]
        d = shape['d']
        m = n if d is None else n + d
        return dict(c=[x & M(m), m, M(m)], a=[x, n, M(n)])


class Out(Case):
    prop = 'C07'
    name = 'C07.out'
    bounds = 'int(), int(-1), bit(i) for every -n<=i<n, iteration, bitlist(+1/-1), bytes(), pack(<L), pack(>L), round trips through bytes / bit list / pack+unpack: n in 0..16 (quick) / 0..72 + boundaries to 257 (thorough); str/todots/hex (need concrete digits): n<=8 by solver-driven enumeration of the payload'
    max_paths = 5000

    def shapes(self, tier):
        ns = list(range(0, 17)) if tier == 'quick' else list(range(0, 131)) + [255, 256, 257, 511, 512, 513, 1023, 1024, 1025]
        for n in ns:
            yield dict(kind='num', n=n)
            yield dict(kind='bytes', n=n)
            yield dict(kind='rt', n=n)
            if n <= 8:
                yield dict(kind='str', n=n)

    def mk(self, shape, src):
        return (src.int('x', shape['n']),)

    def impl(self, shape, args):
        Bits = _bits()
        from crysp.bits import pack, unpack
        n, x = shape['n'], args[0]
        b = Bits(x, n)
        k = shape['kind']
        if k == 'num':
            return dict(u=b.int(), i=b.__int__(), s=b.int(-1) if n > 0 else 0, bit=[b.bit(i) for i in range(-n, n)],
                        it=list(b), bl=b.bitlist(), blr=b.bitlist(-1), ln=len(b), b=st(b))
        if k == 'bytes':
            return dict(by=b.__bytes__(), by2=b.bytes(), le=pack(b), be=pack(b, '>L'), b=st(b))
        if k == 'rt':
            out = dict(by=st(Bits(b.bytes(), size=n)), bl=st(Bits(b.bitlist())) if n > 0 else None)
            if n % 8 == 0 and n > 0:
                out['le'] = st(Bits(*unpack(pack(b, '<L'), bigend=False)))
                out['be'] = st(Bits(*unpack(pack(b, '>L'), bigend=True)))
            return out
        if k == 'str':
            return dict(s=b.__str__(), dots=b.todots(), hx=b.hex().decode('ascii'))

    def spec(self, shape, args):
        n, x = shape['n'], args[0]
        k = shape['kind']
        bits = [(x >> i) & 1 for i in range(n)]
        B = [x, n, M(n)]
        if k == 'num':
            sv = (x - (bits[n - 1] << n)) if n > 0 else 0
            return dict(u=x, i=x, s=sv, bit=[bits[i] for i in range(-n, n)], it=bits, bl=bits, blr=bits[::-1], ln=n, b=B)
        nb = (n + 7) // 8
        if k == 'bytes':
            stream = []
            for j in range(nb):
                v = 0
                for t in range(8):
                    if 8 * j + t < n:
                        v = v | (bits[8 * j + t] << (7 - t))
                stream.append(v)
            le = [(x >> (8 * j)) & 0xff for j in range(nb)]
            return dict(by=_b(stream), by2=_b(stream), le=_b(le), be=_b(le[::-1]), b=B)
        if k == 'rt':
            out = dict(by=B, bl=B if n > 0 else None)
            if n % 8 == 0 and n > 0:
                out['le'] = B
                out['be'] = B
            return out
        if k == 'str':
            xv = int(x)
            bs = [(xv >> i) & 1 for i in range(n)]
            s = ''.join(str(c) for c in bs)
            stream = []
            for j in range(nb):
                v = 0
                for t in range(8):
                    if 8 * j + t < n:
                        v |= bs[8 * j + t] << (7 - t)
                stream.append(v)
            return dict(s=s, dots='|%s|' % s.replace('0', ' ').replace('1', '.'), hx=''.join('%02x' % v for v in stream))


def _b(xs):
    "list of byte values (ints or symbolic) -> bytes-like"
    if all(isinstance(v, int) for v in xs):
        return bytes(xs)
    from symx.core import SymBytes
    return SymBytes(xs)


class Unpack(Case):
    prop = 'C07'
    name = 'C07.unpack'
    bounds = 'unpack(s, bigend) for every byte count 1..40 (every Q/L/H/B decomposition), both endiannesses, all bytes symbolic; pack(Bits(*unpack(s))) == s'

    def shapes(self, tier):
        for L in range(1, 41):
            for be in (False, True):
                yield dict(L=L, be=be)

    def mk(self, shape, src):
        return (src.bytes('s', shape['L']),)

    def impl(self, shape, args):
        Bits = _bits()
        from crysp.bits import pack, unpack
        v, sz = unpack(args[0], bigend=shape['be'])
        back = pack(Bits(v, sz), '>L' if shape['be'] else '<L')
        return dict(v=v, sz=sz, back=back)

    def spec(self, shape, args):
        s = list(args[0])
        L = shape['L']
        if not shape['be']:
            s = s[::-1]
        v = 0
        for b in s:
            v = (v << 8) | b
        return dict(v=v, sz=8 * L, back=args[0])


class RevByte(Case):
    prop = 'C07'
    name = 'C07.reverse_byte'
    kind = 'L'
    bounds = 'reverse_byte(b) for every byte value (one symbolic byte)'

    def shapes(self, tier):
        yield dict()

    def mk(self, shape, src):
        return (src.int('b', 8),)

    def impl(self, shape, args):
        from crysp.bits import reverse_byte
        return reverse_byte(args[0])

    def spec(self, shape, args):
        return rev8(args[0])


for c in (FromBytes, FromInt, Out, Unpack, RevByte):
    register(c())
