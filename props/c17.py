"""C17 - MD6 digests equal the specification for every size, mode, key and message.
The real PAR/SEQ/f code runs on symbolic message and key bytes (no abstraction: MD6's compression is and/xor/shift, which stays
word-level); digest size, mode parameter L, key length, round count and message length (number of leaf blocks / tree levels,
residues modulo 512 and 384 bytes, bit lengths) are enumerated."""
from props.common import Case, register, MustRaise, NoClaim
from refs import md6 as R6


def _b(xs):
    if all(isinstance(v, int) for v in xs):
        return bytes(xs)
    from symx.core import SymBytes
    return SymBytes(xs)


class Md6(Case):
    prop = 'C17'
    name = 'C17.md6'
    timeout_s = 900
    bounds = ('MD6(d,K,L)(M,bitlen) with rounds in {1,2,5} (and the DEFAULT round count for d in {1,7,128,159,160,256,384,512}, keyed and unkeyed, on one block): d in {1,7,160,224,256,384,512}; L in {0,1,2,3,64}; |K| in {0,1,10,64}; '
              '|M| in {0,1,383,384,385,511,512,513,1025,2048,2049} bytes everywhere and 8193 bytes (17 leaf blocks, 3 tree levels) for the hierarchical and hybrid modes; bit lengths with L\' mod 8 in 1..7 '
              'at three lengths, and bit lengths that end one or two whole 512-byte blocks before the end of the buffer; message and key bytes symbolic; ceil(d/8) output bytes')
    outside = 'messages of more than 17 leaf blocks (4 tree levels); default round counts beyond one block; keys longer than 64 bytes (the library truncates them silently; not demanded)'

    def shapes(self, tier):
        ds = (1, 7, 160, 224, 256, 384, 512)
        base = (0, 1, 383, 384, 385, 511, 512, 513, 1025, 2048, 2049)
        for L in (64, 0, 1, 2, 3):
            for d in (ds if tier == 'thorough' or L in (64, 0) else (256,)):
                for kl in ((0, 10) if tier == 'quick' else (0, 1, 10, 64)):
                    ns = base if (d == 256 or tier == 'thorough') else (1, 513)
                    for n in ns:
                        yield dict(d=d, L=L, kl=kl, r=2, n=n, bl=None)
            # several tree levels / hybrid switch-over
            for n in ((8193,) if tier == 'quick' else (8192, 8193, 16 * 512 + 384)):
                yield dict(d=256, L=L, kl=10 if L in (1, 2) else 0, r=1, n=n, bl=None)
        for L in (64, 0, 1):
            for n in (1, 512, 513):
                for rem in range(1, 8):
                    yield dict(d=256, L=L, kl=0, r=2, n=n, bl=8 * n - rem)
        for r in (1, 5):
            for L in (64, 0):
                yield dict(d=224, L=L, kl=10, r=r, n=600, bl=None)
        # surplus bytes: a bit length that ends whole blocks before the end of the buffer (the digest depends on the first bl bits only)
        for d, r in ((512, 2), (256, 5)):
            for L in (64, 1, 0):
                for n, bl in ((520, 4096), (1030, 4120), (1030, 8187), (1540, 4095)) if (tier == 'thorough' or d == 512) else ((520, 4096),):
                    yield dict(d=d, L=L, kl=0, r=r, n=n, bl=bl)
        yield dict(d=256, L=64, kl=0, r=None, n=3, bl=None)
        for d in (1, 7, 128, 159, 160, 384, 512):
            # default round count r = 40 + d/4 (max(80, .) with a key): unkeyed and keyed, tree and sequential
            for L, kl in ((64, 0), (0, 0), (64, 3)):
                yield dict(d=d, L=L, kl=kl, r=None, n=2, bl=None)
        yield dict(d=256, L=0, kl=5, r=None, n=3, bl=None)

    def mk(self, shape, src):
        return (src.bytes('M', shape['n']), src.bytes('K', shape['kl']))

    def stubs(self, shape):
        from symx.harness import patched
        from symx.stubs import reverse_byte_patches
        return patched(reverse_byte_patches())

    def impl(self, shape, args):
        from crysp.md import MD6
        M, K = args
        h = MD6(shape['d'], K, shape['L'])
        if shape['r'] is not None:
            h.rounds = shape['r']
        return h(M) if shape['bl'] is None else h(M, bitlen=shape['bl'])

    def spec(self, shape, args):
        M, K = args
        r = R6.md6(shape['d'], list(M), shape['bl'], key=list(K), L=shape['L'], rounds=shape['r'])
        assert len(r) == (shape['d'] + 7) // 8
        return _b(r)


register(Md6())


# ---- lemmas for the stubs this check relies on (see props.common.Borrowed) ----
from props.common import Borrowed, REGISTRY
from props import c01 as _c01
register(Borrowed(REGISTRY['C01.reverse_byte'], 'C17', 'reverse_byte'))
