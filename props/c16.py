"""C16 - Poly: element-wise ring arithmetic, sequence indexing, consistent re-chunking.
Dimensions, ring sizes and index expressions are enumerated; every coefficient is a solver variable."""
import itertools
from props.common import Case, register, MustRaise, NoClaim

RINGS = [1, 2, 3, 8, 32, 64]


def M(k):
    return (1 << k) - 1


def mkpoly(vals, k):
    from crysp.poly import Poly
    return Poly(list(vals), k)


def state(p):
    return dict(ival=list(p.ival) if p.ival else [], dim=p.dim, size=p.size)


def model(vals, k):
    return dict(ival=list(vals), dim=len(vals), size=k)


class BinOp(Case):
    prop = 'C16'
    name = 'C16.binop'
    bounds = ('a op b for op in + - ^ & | on Poly over Z/2^k, k in {1,2,3,8,32,64} and k=0 (integers, non-negative coefficients below 2^15; - excluded), dims (m,n) in 0..4^2 (quick) / thorough: 0..20^2 for those rings and 0..8^2 for every ring k in 1..65, '
              'both operand orders, all coefficients symbolic: every coefficient, result dimension (= longer operand; empty op empty stays empty), operands unchanged')

    def shapes(self, tier):
        for k in (RINGS + [0] if tier == 'quick' else list(range(1, 66)) + [0]):
            D = 5 if tier == 'quick' else (21 if k in RINGS + [0] else 9)
            for m in range(D):
                for n in range(D):
                    for op in ('add', 'sub', 'xor', 'and', 'or'):
                        if k == 0 and op == 'sub':
                            continue
                        yield dict(op=op, k=k, m=m, n=n)

    def mk(self, shape, src):
        kk = shape['k'] or 15
        return ([src.int('a%d' % i, kk) for i in range(shape['m'])], [src.int('b%d' % i, kk) for i in range(shape['n'])])

    def impl(self, shape, args):
        a, b = mkpoly(args[0], shape['k']), mkpoly(args[1], shape['k'])
        op = shape['op']
        r = {'add': lambda: a + b, 'sub': lambda: a - b, 'xor': lambda: a ^ b, 'and': lambda: a & b, 'or': lambda: a | b}[op]()
        return dict(r=state(r), a=state(a), b=state(b))

    def spec(self, shape, args):
        A, B = list(args[0]), list(args[1])
        k, op = shape['k'], shape['op']
        d = max(len(A), len(B))
        ea = A + [0] * (d - len(A))
        eb = B + [0] * (d - len(B))
        f = {'add': lambda x, y: x + y, 'sub': lambda x, y: x - y, 'xor': lambda x, y: x ^ y, 'and': lambda x, y: x & y, 'or': lambda x, y: x | y}[op]
        r = [f(x, y) & M(k) if k else f(x, y) for x, y in zip(ea, eb)]
        return dict(r=model(r, k), a=model(A, k), b=model(B, k))


class Unary(Case):
    prop = 'C16'
    name = 'C16.unary'
    bounds = 'unary minus (-a coefficient-wise, a + (-a) == 0 with the same ring), a<<n and a>>n for n in {0,1,k-1,k}, a//b (concatenation), for k in {1,2,3,8,32,64}, dims 0..4 (quick) / 8 more rings incl. 31,33,63,65 and dims 0..8 and 20 (thorough); coefficients symbolic'

    def shapes(self, tier):
        for k in (RINGS if tier == 'quick' else sorted(set(RINGS + [4, 5, 7, 16, 31, 33, 63, 65]))):
            for m in (range(0, 5) if tier == 'quick' else list(range(0, 9)) + [20]):
                yield dict(op='neg', k=k, m=m)
                yield dict(op='negsum', k=k, m=m)
                for n in sorted(set([0, 1, k - 1, k])):
                    yield dict(op='shl', k=k, m=m, n=n)
                    yield dict(op='shr', k=k, m=m, n=n)
                for m2 in (0, 1, 3):
                    yield dict(op='cat', k=k, m=m, m2=m2)

    def mk(self, shape, src):
        k = shape['k']
        return ([src.int('a%d' % i, k) for i in range(shape['m'])], [src.int('b%d' % i, k) for i in range(shape.get('m2', 0))])

    def impl(self, shape, args):
        k, op = shape['k'], shape['op']
        a = mkpoly(args[0], k)
        if op == 'neg': r = -a
        elif op == 'negsum': r = a + (-a)
        elif op == 'shl': r = a << shape['n']
        elif op == 'shr': r = a >> shape['n']
        else: r = a // mkpoly(args[1], k)
        return dict(r=state(r), a=state(a))

    def spec(self, shape, args):
        k, op = shape['k'], shape['op']
        A = list(args[0])
        if op == 'neg': r = [(-x) & M(k) for x in A]
        elif op == 'negsum': r = [0 for x in A]
        elif op == 'shl': r = [(x << shape['n']) & M(k) for x in A]
        elif op == 'shr': r = [x >> shape['n'] for x in A]
        else: r = A + list(args[1])
        return dict(r=model(r, k), a=model(A, k))


class Index(Case):
    prop = 'C16'
    name = 'C16.index'
    timeout_s = 300
    bounds = ('a[i] for every -d<=i<d, a[i:j:s] for start/stop in {None,0..d} and step in {None,1,2,3}, a[list] for every index list of length <=3 (repeats included); the matching assignments '
              '(symbolic values; lists with distinct indices): only the addressed coefficients change; dims 1..4 (quick) / 1..5, rings k in {8,32} (+{1,64} thorough)')
    outside = 'slices that reach beyond the dimension (Poly extends them with zero coefficients) and negative steps (refused by Poly)'

    def shapes(self, tier):
        for k in ((8, 32) if tier == 'quick' else (1, 8, 32, 64)):
            for d in range(1, 5 if tier == 'quick' else 6):
                for kind in ('get', 'set'):
                    yield dict(kind=kind, what='int', k=k, d=d)
                    yield dict(kind=kind, what='slice', k=k, d=d)
                    yield dict(kind=kind, what='list', k=k, d=d)

    def mk(self, shape, src):
        k, d = shape['k'], shape['d']
        return ([src.int('a%d' % i, k) for i in range(d)], [src.int('v%d' % i, k) for i in range(d + 1)])

    def _exprs(self, shape):
        d = shape['d']
        if shape['what'] == 'int':
            return list(range(-d, d))
        if shape['what'] == 'slice':
            rng = [None] + list(range(0, d + 1))
            return [(i, j, s) for i in rng for j in rng for s in (None, 1, 2, 3)]
        out = []
        for L in range(1, 4):
            it = itertools.product(range(d), repeat=L) if shape['kind'] == 'get' else itertools.permutations(range(d), L)
            out += [list(t) for t in it]
        return out

    def impl(self, shape, args):
        k, d = shape['k'], shape['d']
        out = []
        for e in self._exprs(shape):
            a = mkpoly(args[0], k)
            idx = slice(*e) if shape['what'] == 'slice' else e
            if shape['kind'] == 'get':
                r = a[idx]
                out.append(None if r is None else state(r))
                out.append(state(a))
            else:
                n = 1 if shape['what'] == 'int' else len(range(d)[idx] if shape['what'] == 'slice' else e)
                if n == 0:
                    out.append(state(a))
                    continue
                a[idx] = args[1][0] if shape['what'] == 'int' else list(args[1][:n])
                out.append(state(a))
        return out

    def spec(self, shape, args):
        k, d = shape['k'], shape['d']
        A = list(args[0])
        V = list(args[1])
        out = []
        for e in self._exprs(shape):
            if shape['what'] == 'int':
                sel = [range(d)[e]]
            elif shape['what'] == 'slice':
                sel = list(range(d)[slice(*e)])
            else:
                sel = e
            if shape['kind'] == 'get':
                out.append(model([A[i] for i in sel], k))
                out.append(model(A, k))
            else:
                B = list(A)
                for t, i in enumerate(sel):
                    B[i] = V[t]
                out.append(model(B, k))
        return out


class Chunk(Case):
    prop = 'C16'
    name = 'C16.chunk'
    bounds = "a.split(k') for k' | k little-endian and big-endian per coefficient, pack(a) == concatenated little-endian coefficient bytes; k in {8,16,32,64}, k' in {8,16,32} dividing k (and k'=1,4 for k=8), dims 0..4; coefficients symbolic"

    def shapes(self, tier):
        for k in (8, 16, 32, 64):
            for d in range(0, 5):
                for k2 in (1, 4, 8, 16, 32):
                    if k % k2 == 0 and k2 <= k and (k2 >= 8 or k == 8):
                        for be in (False, True):
                            yield dict(what='split', k=k, d=d, k2=k2, be=be)
                yield dict(what='pack', k=k, d=d)

    def mk(self, shape, src):
        return ([src.int('a%d' % i, shape['k']) for i in range(shape['d'])],)

    def impl(self, shape, args):
        from crysp.bits import pack
        a = mkpoly(args[0], shape['k'])
        if shape['what'] == 'pack':
            return dict(p=pack(a), a=state(a))
        r = a.split(shape['k2'], shape['be'])
        return dict(r=state(r), a=state(a))

    def spec(self, shape, args):
        k = shape['k']
        A = list(args[0])
        if shape['what'] == 'pack':
            bs = [(x >> (8 * j)) & 0xff for x in A for j in range(k // 8)]
            if all(isinstance(v, int) for v in bs):
                p = bytes(bs)
            else:
                from symx.core import SymBytes
                p = SymBytes(bs)
            return dict(p=p, a=model(A, k))
        k2 = shape['k2']
        out = []
        for x in A:
            ps = [(x >> (k2 * j)) & M(k2) for j in range(k // k2)]
            if shape['be']:
                ps.reverse()
            out += ps
        if k2 == k:
            return dict(r=model(A, k), a=model(A, k))
        return dict(r=model(out, k2), a=model(A, k))


for c in (BinOp, Unary, Index, Chunk):
    register(c())
