"""C11 - BLAKE and BLAKE2 digests equal their specifications for all inputs and parameters.
No uninterpreted functions are needed: BLAKE is add/xor/rotate only, which the canonical term layer keeps word-level."""
from props.common import Case, register, MustRaise, NoClaim
from refs import blake as RB


def _b(xs):
    if all(isinstance(v, int) for v in xs):
        return bytes(xs)
    from symx.core import SymBytes
    return SymBytes(xs)


def rb_patches():
    from symx.stubs import reverse_byte_patches
    return reverse_byte_patches()


def blens(B, lf, tier):
    if tier == 'quick':
        return sorted(set([0, 1, B - lf - 2, B - lf - 1, B - lf, B - lf + 1, B - 1, B, B + 1, 2 * B - 1, 2 * B, 2 * B + 1, 3 * B + 1]))
    return list(range(0, 3 * B + 2))


class Blake(Case):
    prop = 'C11'
    name = 'C11.blake'
    timeout_s = 600
    bounds = ('Blake(n)(M, salt, bitlen) for n in 224,256,384,512: |M| in {0,1, spill boundary B-len-2..B-len+1, B-1,B,B+1, 2B-1,2B,2B+1, 3B+1} (quick) / '
              'every |M| 0..3B+1 (thorough); bit lengths with L mod 8 in {1,7} at 3 lengths (quick) / every residue at the boundary lengths; '
              'message bytes and the 4-word salt symbolic; L > 8|M| must raise')
    outside = 'messages longer than 3B+1 bytes as whole runs (long counters: C11.preset)'

    def shapes(self, tier):
        for size in (224, 256, 384, 512):
            B = 64 if size <= 256 else 128
            lf = 8 if size <= 256 else 16
            for n in blens(B, lf, tier):
                yield dict(size=size, n=n, L=None)
            for n in ((1, B - lf, B + 1) if tier == 'quick' else (1, B - lf - 1, B - lf, B - lf + 1, B, B + 1, 2 * B)):
                for r in ((1, 7) if tier == 'quick' else range(1, 8)):
                    yield dict(size=size, n=n, L=8 * (n - 1) + r)
            yield dict(size=size, n=B + 2, L=8 * B)
            yield dict(size=size, n=2, L=17)

    def mk(self, shape, src):
        w = 32 if shape['size'] <= 256 else 64
        return (src.bytes('M', shape['n']), src.int('salt', 4 * w))

    def stubs(self, shape):
        from symx.harness import patched
        return patched(rb_patches())

    def impl(self, shape, args):
        from crysp.blake import Blake
        h = Blake(shape['size'])
        if shape['L'] is None:
            return h(args[0], args[1])
        return h(args[0], args[1], bitlen=shape['L'])

    def spec(self, shape, args):
        if shape['L'] is not None and shape['L'] > 8 * shape['n']:
            raise MustRaise()
        d = RB.blake(shape['size'], list(args[0]), args[1], shape['L'])
        assert len(d) == shape['size'] // 8
        return _b(d)


class BlakePreset(Case):
    prop = 'C11'
    name = 'C11.preset'
    kind = 'I'
    timeout_s = 600
    bounds = ('inductive step for long messages: Blake.update / Blake2.update started from an ARBITRARY chaining value (8 symbolic words) and a bit counter '
              'k*blocksize with SYMBOLIC k (any value that keeps the counter inside two words), then the final call with a tail of 0, 1, B-len, B, B+1 bytes: '
              'digest == reference continued from the same state (covers the low->high counter word carry and every later block of any message)')

    def shapes(self, tier):
        for size in (224, 256, 384, 512):
            B = 64 if size <= 256 else 128
            lf = 8 if size <= 256 else 16
            for n in (0, 1, B - lf, B, B + 1):
                yield dict(algo='blake', size=size, n=n)
        for size in (256, 512):
            B = 64 if size == 256 else 128
            for n in (1, B, B + 1):
                yield dict(algo='blake2', size=size, n=n)

    def mk(self, shape, src):
        w = 32 if shape['size'] <= 256 else 64
        kbits = 2 * w - (9 if w == 32 else 10) - 1
        return (src.bytes('M', shape['n']), [src.int('H%d' % i, w) for i in range(8)], src.int('k', kbits))

    def stubs(self, shape):
        from symx.harness import patched
        return patched(rb_patches())

    def impl(self, shape, args):
        from crysp.poly import Poly
        import crysp.blake as cb
        size = shape['size']
        M, H, k = args
        if shape['algo'] == 'blake':
            h = cb.Blake(size)
            h.initstate(0)
            h.H = Poly(list(H), h.wsize)
            h.padmethod.bitcnt = k * h.blocksize
            return h.update(M, padding=True)
        h = cb.Blake2(size)
        h.initstate()
        h.H = Poly(list(H), h.wsize)
        h.padmethod.bitcnt = k * h.blocksize
        return h.update(M, padding=True)

    def spec(self, shape, args):
        size = shape['size']
        M, H, k = args
        w = 32 if size <= 256 else 64
        if shape['algo'] == 'blake':
            return _b(RB.blake(size, list(M), 0, None, H=list(H), base=k * 16 * w))
        return _b(RB.blake2(size, list(M), H=list(H), base=k * 16 * w // 8))


class Blake2(Case):
    prop = 'C11'
    name = 'C11.blake2'
    timeout_s = 600
    bounds = ('Blake2(256/512)(M, outlen, salt, pers, fanout, depth, leafl, noffset, ndepth, inner): |M| in {0,1,B-1,B,B+1,2B-1,2B,2B+1,3B+1} (quick) / every '
              '|M| 0..3B+1 (thorough); outlen in {1, 20, max-1, max} (quick) / every 1..max at |M|=3 (thorough); message, salt, personalization AND the '
              'integer tree parameters (fanout, depth, leaf length 32 bit, node offset 48/64 bit, node depth, inner length) symbolic over their full range')
    outside = 'keyed mode (crysp leaves the key block to the caller); salt/personalization shorter than the field'

    def shapes(self, tier):
        for size in (256, 512):
            B = 64 if size == 256 else 128
            mx = size // 8
            ns = [0, 1, B - 1, B, B + 1, 2 * B - 1, 2 * B, 2 * B + 1, 3 * B + 1] if tier == 'quick' else list(range(0, 3 * B + 2))
            for n in ns:
                yield dict(size=size, n=n, outlen=None, params=False)
            for n in (0, 3, B + 1):
                yield dict(size=size, n=n, outlen=mx, params=True)
            for ol in ((1, 20, mx - 1, mx) if tier == 'quick' else range(1, mx + 1)):
                yield dict(size=size, n=3, outlen=ol, params=False)
                if tier == 'thorough' or ol in (1, 20):
                    yield dict(size=size, n=B + 1, outlen=ol, params=True)

    def mk(self, shape, src):
        size = shape['size']
        wb = 8 if size == 512 else 4
        M = src.bytes('M', shape['n'])
        if not shape['params']:
            return (M, None)
        P = dict(salt=src.bytes('S', 2 * wb), pers=src.bytes('P', 2 * wb), fanout=src.int('fan', 8), depth=src.int('dep', 8),
                 leafl=src.int('leaf', 32), noffset=src.int('noff', 64 if size == 512 else 48), ndepth=src.int('nd', 8),
                 inner=src.int('inn', 8))
        return (M, P)

    def stubs(self, shape):
        from symx.harness import patched
        return patched(rb_patches())

    def impl(self, shape, args):
        from crysp.blake import Blake2
        h = Blake2(shape['size'])
        kw = dict(args[1] or {})
        if shape['outlen'] is not None:
            kw['outlen'] = shape['outlen']
        return h(args[0], **kw)

    def spec(self, shape, args):
        kw = dict(args[1] or {})
        d = RB.blake2(shape['size'], list(args[0]), shape['outlen'], **kw)
        if not self.symbolic:
            import hashlib
            H = hashlib.blake2b if shape['size'] == 512 else hashlib.blake2s
            hk = {}
            if args[1]:
                P = args[1]
                hk = dict(salt=bytes(P['salt']), person=bytes(P['pers']), fanout=P['fanout'], depth=P['depth'], leaf_size=P['leafl'],
                          node_offset=P['noffset'], node_depth=P['ndepth'], inner_size=P['inner'])
            try:
                want = H(bytes(args[0]), digest_size=shape['outlen'] or shape['size'] // 8, **hk).digest()
            except (ValueError, OverflowError):
                want = None        # hashlib refuses some parameter values (depth 0, inner > max): the RFC model decides
            assert want is None or want == bytes(d), 'reference BLAKE2 disagrees with hashlib'
        return _b(d)


for c in (Blake, BlakePreset, Blake2):
    register(c())


# ---- lemmas for the stubs this check relies on (see props.common.Borrowed) ----
from props.common import Borrowed, REGISTRY
from props import c01 as _c01
register(Borrowed(REGISTRY['C01.reverse_byte'], 'C11', 'reverse_byte'))
