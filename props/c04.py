"""C04 - Keccak sponge, SHA-3 and SHAKE equal FIPS 202 / the Keccak reference for every input and configuration.
The real Round/rot/State/iterblocks code runs with no abstraction (xor/and/not/rotate stay word-level in the canonical
term layer); message bytes are symbolic; widths, rates, bit lengths, output lengths and bit-order mode are enumerated."""
from props.common import Case, register, MustRaise, NoClaim
from refs import keccak as RK


def _b(xs):
    if all(isinstance(v, int) for v in xs):
        return bytes(xs)
    from symx.core import SymBytes
    return SymBytes(xs)


def rb():
    from symx.harness import patched
    from symx.stubs import reverse_byte_patches
    return patched(reverse_byte_patches())


def Ls(r, tier):
    s = set([0, 1, 7, 8, 9, r - 2, r - 1, r, r + 1, 2 * r - 1, 2 * r + 3])
    if tier == 'thorough':
        s |= set(range(0, min(2 * r + 3, 220)))
    return sorted(x for x in s if x >= 0)


class Sponge(Case):
    prop = 'C04'
    name = 'C04.sponge'
    timeout_s = 600
    bounds = ('Keccak(b,r,len=d)(M,bitlen=L), both bit-order modes: quick b=1600 r in {576,832,1088,1344}, b=200 r in {8,40,72,100,13}, b=25 r in {3,8,24}, b=800 r=512, b=50 r=17; '
              'L in {0,1,7,8,9,r-2,r-1,r,r+1,2r-1,2r+3}; d in {8,r+1} plus {1,r,2r+8} at L=9; surplus trailing bytes; thorough: all 7 widths, more rates, every L in 0..min(2r+2,219); message bytes symbolic')
    outside = 'L > 2r+3 (b=1600: later blocks are the same absorb loop body from an arbitrary state, see C04.round); d > 2r+8'

    def configs(self, tier):
        c = [(1600, 576), (1600, 832), (1600, 1088), (1600, 1344), (200, 8), (200, 40), (200, 72), (200, 100), (200, 13),
             (25, 3), (25, 8), (25, 24), (800, 512), (50, 17)]
        if tier == 'thorough':
            c += [(1600, 1024), (1600, 1027), (1600, 1152), (1600, 8), (1600, 1536), (400, 144), (400, 16), (100, 36), (100, 99), (50, 8), (50, 48), (25, 1), (25, 16), (200, 199)]
        return c

    def shapes(self, tier):
        for b, r in self.configs(tier):
            for L in Ls(r, tier):
                ds = [8, r + 1] + ([1, r, 2 * r + 8] if L == 9 else [])
                for d in ds:
                    for mode in (('nist', 'native') if L % 8 else ('nist',)):
                        yield dict(b=b, r=r, L=L, d=d, mode=mode, n=(L + 7) // 8)
            # surplus bytes after the bit length
            yield dict(b=b, r=r, L=11, d=8, mode='nist', n=4)
            yield dict(b=b, r=r, L=16, d=8, mode='nist', n=3)
            yield dict(b=b, r=r, L=0, d=8, mode='nist', n=2)
            yield dict(b=b, r=r, L=None, d=8, mode='nist', n=3)

    def mk(self, shape, src):
        return (src.bytes('M', shape['n']),)

    def stubs(self, shape):
        return rb()

    def impl(self, shape, args):
        from crysp.keccak import Keccak
        h = Keccak(b=shape['b'], r=shape['r'], len=shape['d'])
        h.duplexing = shape['mode'] == 'native'
        if shape['L'] is None:
            return h(args[0])
        return h(args[0], bitlen=shape['L'])

    def spec(self, shape, args):
        L = shape['L'] if shape['L'] is not None else 8 * shape['n']
        return _b(RK.keccak(shape['b'], shape['r'], list(args[0]), L, shape['d'], shape['mode'] == 'nist'))


class Sha3(Case):
    prop = 'C04'
    name = 'C04.sha3'
    timeout_s = 600
    bounds = ('SHA3-224/256/384/512(M) and SHAKE128/256(M,d): |M| in {0,1,rate-2,rate-1,rate,rate+1,2*rate-1,2*rate,2*rate+1} (quick) / every |M| 0..2*rate+1 (thorough); '
              'SHAKE d in {8, 256, rate*8+8, 2*rate*8+16}; message bytes symbolic')

    def shapes(self, tier):
        for size in (224, 256, 384, 512):
            rate = (1600 - 2 * size) // 8
            ns = [0, 1, rate - 2, rate - 1, rate, rate + 1, 2 * rate - 1, 2 * rate, 2 * rate + 1] if tier == 'quick' else range(0, 2 * rate + 2)
            for n in ns:
                yield dict(fn='sha3', size=size, n=n)
        for sec in (128, 256):
            rate = (1600 - 2 * sec) // 8
            for n in (0, 1, rate - 1, rate, rate + 1) if tier == 'quick' else (0, 1, rate - 2, rate - 1, rate, rate + 1, 2 * rate - 1, 2 * rate):
                for d in (8, 256, 8 * rate + 8, 16 * rate + 16):
                    yield dict(fn='shake', sec=sec, n=n, d=d)

    def mk(self, shape, src):
        return (src.bytes('M', shape['n']),)

    def stubs(self, shape):
        return rb()

    def impl(self, shape, args):
        import crysp.sha as sha
        if shape['fn'] == 'sha3':
            return sha.SHA3(shape['size'])(args[0])
        return (sha.SHAKE128 if shape['sec'] == 128 else sha.SHAKE256)(args[0], shape['d'])

    def spec(self, shape, args):
        M = list(args[0])
        if shape['fn'] == 'sha3':
            d = RK.sha3(shape['size'], M)
            if not self.symbolic:
                import hashlib
                assert hashlib.new('sha3_%d' % shape['size'], bytes(M)).digest() == bytes(d)
            return _b(d)
        d = RK.shake(shape['sec'], M, shape['d'])
        if not self.symbolic:
            import hashlib
            assert hashlib.new('shake_%d' % shape['sec'], bytes(M)).digest(shape['d'] // 8) == bytes(d)
        return _b(d)


class Round(Case):
    prop = 'C04'
    name = 'C04.round'
    kind = 'I'
    bounds = ('one Keccak-f round from an ARBITRARY state (25 symbolic lanes) for every width w in 1,2,4,8,16,32,64 and every round index 0..23 (theta, rho/pi offsets, chi, iota '
              'with the truncated round constant), and the whole permutation f from an arbitrary state for every width: equals the reference with derived offsets / LFSR constants')

    def shapes(self, tier):
        for w in (1, 2, 4, 8, 16, 32, 64):
            for i in range(24):
                yield dict(w=w, i=i)
            yield dict(w=w, i='f')

    def mk(self, shape, src):
        return ([src.int('a%d' % l, shape['w']) for l in range(25)],)

    def impl(self, shape, args):
        import crysp.keccak as K
        from crysp.bits import Bits
        w = shape['w']
        S = K.State(w)
        S.lanes = [Bits(v, w) for v in args[0]]
        if shape['i'] == 'f':
            h = K.Keccak(b=25 * w, r=8 if w > 1 else 8, len=8)
            A = h.f(S)
        else:
            A = K.Round(S, K.RC[shape['i']][:w])
        return [[l.ival, l.size] for l in A.lanes]

    def spec(self, shape, args):
        w = shape['w']
        if shape['i'] == 'f':
            out = RK.keccak_f(list(args[0]), w)
        else:
            A = {(x, y): args[0][5 * y + x] for x in range(5) for y in range(5)}
            A = RK.keccak_round(A, RK.RC[shape['i']], w)
            out = [A[x, y] for y in range(5) for x in range(5)]
        return [[v, w] for v in out]


class Duplex(Case):
    prop = 'C04'
    name = 'C04.duplex'
    timeout_s = 600
    bounds = ('sequences of 1..3 duplex(m, bitlen, outlen) calls on one object: b=1600 r=1027 and b=200 r=40; input lengths per call in {0,1,2,9,r-2} bits (last one only b=200), '
              'outlen in {r, 8}; every call result equals the reference duplex construction; input bytes symbolic')

    def shapes(self, tier):
        import itertools
        for b, r in ((1600, 1027), (200, 40)):
            lens = [0, 1, 2, 9] + ([r - 2] if b == 200 else [])
            for k in (1, 2, 3):
                for seq in itertools.product(lens, repeat=k):
                    if k == 3 and tier == 'quick' and seq not in ((0, 1, 2), (9, 9, 9), (2, 0, 9)):
                        continue
                    if k == 2 and tier == 'quick' and seq[0] not in (0, 9):
                        continue
                    for outlen in (r, 8):
                        yield dict(b=b, r=r, seq=list(seq), outlen=outlen)

    def mk(self, shape, src):
        return ([src.bytes('m%d' % i, (L + 7) // 8) for i, L in enumerate(shape['seq'])],)

    def stubs(self, shape):
        return rb()

    def impl(self, shape, args):
        from crysp.keccak import Keccak
        h = Keccak(b=shape['b'], r=shape['r'], len=shape['r'])
        out = []
        for m, L in zip(args[0], shape['seq']):
            out.append(h.duplex(m, bitlen=L, outlen=shape['outlen']))
        return out

    def spec(self, shape, args):
        S = [0] * 25
        out = []
        for m, L in zip(args[0], shape['seq']):
            o, S = RK.duplex_step(shape['b'], shape['r'], S, list(m), L, shape['outlen'])
            out.append(_b(o))
        return out


for c in (Sponge, Sha3, Round, Duplex):
    register(c())


# ---- lemmas for the stubs this check relies on (see props.common.Borrowed) ----
from props.common import Borrowed, REGISTRY
from props import c01 as _c01
register(Borrowed(REGISTRY['C01.reverse_byte'], 'C04', 'reverse_byte'))
