"""C14 - hashing a message piecewise gives the same digest as hashing it at once; counters track the bits fed.
Cut-point sets are enumerated; all message bytes are symbolic.  The piecewise run of the real code is compared with the
*reference* digest of the whole message (C01/C11 models), which is what the one-shot call is proved to return."""
import itertools
from props.common import Case, register, MustRaise, NoClaim
from refs import mdsha
from refs import blake as RB

ALGOS = ['md4', 'md5', 'sha1', 'sha224', 'sha256', 'sha384', 'sha512', 'sha512_256',
         'blake224', 'blake256', 'blake384', 'blake512', 'blake2s', 'blake2b']


def blockbytes(algo):
    if algo in ('blake2s', 'blake2b'):
        return 64 if algo == 'blake2s' else 128
    if algo.startswith('blake'):
        return 64 if int(algo[5:]) <= 256 else 128
    return mdsha.BLOCK[algo]


def _b(xs):
    if all(isinstance(v, int) for v in xs):
        return bytes(xs)
    from symx.core import SymBytes
    return SymBytes(xs)


def make(algo, symbolic):
    if algo in ('blake2s', 'blake2b'):
        import crysp.blake as cb
        h = cb.Blake2(256 if algo == 'blake2s' else 512)
        h.initstate()
        return h
    if algo.startswith('blake'):
        import crysp.blake as cb
        h = cb.Blake(int(algo[5:]))
        h.initstate(0)
        return h
    from props import c01
    h = c01.make(algo)
    if symbolic:
        c01.stub_obj(h, algo)
    h.initstate()
    if symbolic:
        c01.stub_obj(h, algo)
    return h


def ref_digest(algo, M, symbolic):
    if algo in ('blake2s', 'blake2b'):
        return RB.blake2(256 if algo == 'blake2s' else 512, M)
    if algo.startswith('blake'):
        return RB.blake(int(algo[5:]), M)
    from props import c01
    return mdsha.digest(algo, M, None, c01.UFLeaves if symbolic else mdsha.StdLeaves)


class Piecewise(Case):
    prop = 'C14'
    name = 'C14.piecewise'
    timeout_s = 900
    bounds = ('init; update(piece, padding=False)*; update(last, padding=True) for MD4, MD5, SHA-1, SHA-224/256/384/512, SHA-512/256, BLAKE-224/256/384/512, '
              'BLAKE2s/2b: every composition of a message of up to 3 whole blocks into block-aligned pieces (empty pieces included, up to 4 pieces) followed by a '
              'final piece of 0, 1, B-1, B, B+3 or 2B bytes (quick: 3 finals for multi-piece cuts); digest and the bit counter after every piece; all bytes symbolic')
    outside = 'more than 3 whole blocks before the final piece'

    @property
    def uf_concrete(self):
        from props.c01 import UFC
        return UFC

    def shapes(self, tier):
        for algo in ALGOS:
            B = blockbytes(algo)
            finals = (0, 1, B - 1, B, B + 3, 2 * B)
            cuts = set()
            for total in range(0, 4):
                for k in range(1, 5):
                    for comp in itertools.product(range(0, total + 1), repeat=k):
                        if sum(comp) == total:
                            cuts.add(comp)
            cuts = sorted(cuts)
            if tier == 'quick':
                heavy = algo in ('sha384', 'sha512', 'sha512_256', 'blake384', 'blake512', 'blake2b', 'md5', 'md4')
                if heavy:
                    cuts = [c for c in cuts if (sum(c) <= 1 and len(c) <= 2) or c in ((1, 1), (2,), (0, 0, 1))]
                else:
                    cuts = [c for c in cuts if (len(c) <= 2 and sum(c) <= 2) or c in ((1, 1, 1), (3,), (0, 1, 0), (1, 0, 1))]
            for c in cuts:
                for f in finals:
                    if tier == 'quick' and len(c) >= 2 and f not in (0, 1, B + 3):
                        continue
                    if tier == 'quick' and len(c) == 3 and f not in (0, B + 3):
                        continue
                    if tier == 'quick' and algo in ('md5', 'md4') and f == 2 * B:
                        continue
                    yield dict(algo=algo, pieces=list(c), final=f)

    def mk(self, shape, src):
        B = blockbytes(shape['algo'])
        return (src.bytes('M', B * sum(shape['pieces']) + shape['final']),)

    def stubs(self, shape):
        from symx.harness import patched
        from symx.stubs import reverse_byte_patches
        algo = shape['algo']
        if algo.startswith('blake'):
            return patched(reverse_byte_patches())
        from props.c01 import hash_patches
        return patched(hash_patches(algo))

    def impl(self, shape, args):
        algo = shape['algo']
        B = blockbytes(algo)
        M = args[0]
        h = make(algo, self.symbolic)
        pos = 0
        cnt = []
        for k in shape['pieces']:
            h.update(M[pos:pos + k * B], padding=False)
            pos += k * B
            cnt.append(h.padmethod.bitcnt)
        d = h.update(M[pos:], padding=True)
        return dict(d=d, cnt=cnt)

    def spec(self, shape, args):
        algo = shape['algo']
        B = blockbytes(algo)
        M = list(args[0])
        cnt = []
        fed = 0
        for k in shape['pieces']:
            fed += k
            cnt.append(8 * B * fed)
        return dict(d=_b(ref_digest(algo, M, self.symbolic)), cnt=cnt)


class Nilsimsa(Case):
    prop = 'C14'
    name = 'C14.nilsimsa'
    timeout_s = 900
    bounds = ('Nilsimsa: every cut of a message of 0..6 symbolic bytes into two pieces at any byte position, and every cut of a 5-byte message into three pieces: '
              'accumulator state (histogram of 256 counters, byte count, sliding window) after update(a).update(b)[.update(c)] == state after one update of the whole; '
              'digest() reads only that state')

    def shapes(self, tier):
        mx = 6 if tier == 'quick' else 7
        for n in range(0, mx + 1):
            for c in range(0, n + 1):
                yield dict(n=n, cuts=[c])
        for c1 in range(0, 6):
            for c2 in range(c1, 6):
                yield dict(n=5, cuts=[c1, c2])

    def mk(self, shape, src):
        return (src.bytes('M', shape['n']),)

    def _state(self, o):
        return dict(dacc=list(o.dacc), count=o.count, seen=[x for x in o.seen[-4:]])

    def impl(self, shape, args):
        from crysp.nilsimsa import Nilsimsa as N
        M = args[0]
        o = N()
        pos = 0
        for c in shape['cuts'] + [shape['n']]:
            o.update(M[pos:c])
            pos = c
        return self._state(o)

    def spec(self, shape, args):
        from crysp.nilsimsa import Nilsimsa as N
        o = N()
        o.update(args[0])
        return self._state(o)


for c in (Piecewise, Nilsimsa):
    register(c())


# ---- lemmas for the stubs this check relies on (see props.common.Borrowed) ----
from props.common import Borrowed, REGISTRY
from props import c01 as _c01
register(Borrowed(REGISTRY['C01.reverse_byte'], 'C14', 'reverse_byte'))
register(Borrowed(REGISTRY['C01.leaf'], 'C14', 'hash_leaves'))
