"""C03 - every block cipher is a permutation: dec inverts enc (and enc inverts dec); exposed component pairs are mutual
inverses on their entire domain.  Key, tweak and block are symbolic.  S-box pairs are uninterpreted function pairs with the
ground inverse law applied at construction (justified by the pair lemmas below, proved on the REAL tables); linear layers
cancel in the GF(2) normal form; Feistel and add/sub structures cancel syntactically."""
import contextlib
from props.common import Case, register, MustRaise, NoClaim, getitem
from props import c02
from refs import ciphers as RC


def _b(xs):
    if all(isinstance(v, int) for v in xs):
        return bytes(xs)
    from symx.core import SymBytes
    return SymBytes(xs)


@contextlib.contextmanager
def inverse_pairs():
    from symx import ir
    old = dict(ir.UF_INVERSE)
    ir.UF_INVERSE.update({'AS': 'ASi', 'ASi': 'AS'})
    for n in range(8):
        ir.UF_INVERSE['SS%d' % n] = 'SI%d' % n
        ir.UF_INVERSE['SI%d' % n] = 'SS%d' % n
    try:
        yield
    finally:
        ir.UF_INVERSE.clear()
        ir.UF_INVERSE.update(old)


class RoundTrip(Case):
    prop = 'C03'
    name = 'C03.roundtrip'
    uf_concrete = c02.UFC
    timeout_s = 900
    bounds = ('dec(enc(B)) == B and enc(dec(B)) == B, result length == block length, with key, tweak and block ALL symbolic: AES-128/192/256, DES, TDEA (six call forms), '
              'Serpent (key lengths 1,15,16,24,31,32 bytes quick / 1..32 thorough, plus bit-vector keys of 1,7,129,255 bits quick / 14 odd lengths thorough), Threefish-256/512/1024')
    stub_note = 'S-box / inverse S-box as UF pairs with f(finv(t)) -> t applied at term construction (lemmas C03.pairs aes.SSi / serpent.SSi on the real tables); gmul summary as in C02'

    def shapes(self, tier):
        for cfg in c02.configs(tier):
            yield dict(cfg, order='dec_enc')
            yield dict(cfg, order='enc_dec')

    def mk(self, shape, src):
        K = src.int('Kb', shape['kbits']) if shape.get('kbits') else src.bytes('K', shape['kl'])
        return (K, src.bytes('T', shape.get('tl', 0)), src.bytes('B', shape['bl']))

    def stubs(self, shape):
        from symx.harness import patched
        st = contextlib.ExitStack()
        st.enter_context(patched(c02.patches_for(shape['cipher'])))
        st.enter_context(inverse_pairs())
        return st

    def impl(self, shape, args):
        K, T, B = args
        o = c02.real_cipher(shape, K, T)
        o2 = c02.real_cipher(shape, K, T)
        if shape['order'] == 'dec_enc':
            return o2.dec(o.enc(B))
        return o2.enc(o.dec(B))

    def spec(self, shape, args):
        return args[2] if isinstance(args[2], bytes) else _b(list(args[2]))


ROT_WIDTHS_Q = list(range(1, 17)) + [31, 32, 33, 63, 64, 65]


class Pairs(Case):
    prop = 'C03'
    name = 'C03.pairs'
    kind = 'L'
    timeout_s = 900
    bounds = ('f_inv(f(x)) == x == f(f_inv(x)) on the whole domain (x symbolic): AES Sbox/Sbox_inv on a 16-byte state (real tables), ShiftRows/InvShiftRows, MixColumns/InvMixColumns '
              '(gmul through its proved linear summary), DES IP/IPinv, Serpent _S/_Sinv (8 boxes, real tables, 128-bit state), _IP/_FP, _L/_Linv, rol/ror for widths 1..16,31,32,33,63,64,65 '
              '(quick) / 1..128 (thorough) and EVERY amount 0..w, Salsa20 and ChaCha index maps rM/rMinv, cM/cMinv on a symbolic 16-word vector')

    def shapes(self, tier):
        for fn in ('aes.sbox', 'aes.shiftrows', 'aes.mixcolumns', 'des.ip', 'serpent.ipfp', 'serpent.l', 'salsa.rM', 'salsa.cM', 'chacha.rM', 'chacha.cM'):
            for o in ('fi_f', 'f_fi'):
                yield dict(fn=fn, order=o)
        for n in range(8):
            for o in ('fi_f', 'f_fi'):
                yield dict(fn='serpent.s', n=n, order=o)
        for w in (ROT_WIDTHS_Q if tier == 'quick' else range(1, 129)):
            for k in range(0, w + 1):
                yield dict(fn='rot', w=w, k=k)

    def mk(self, shape, src):
        fn = shape['fn']
        if fn.startswith('aes.'):
            return (src.bytes('s', 16),)
        if fn == 'des.ip':
            return (src.int('x', 64),)
        if fn.startswith('serpent.'):
            return (src.int('X', 128),)
        if fn == 'rot':
            return (src.int('x', shape['w']),)
        return ([src.int('w%d' % i, 32) for i in range(16)],)

    def stubs(self, shape):
        from symx.harness import patched
        from symx.stubs import reverse_byte_patches
        ps = reverse_byte_patches()
        if shape['fn'] == 'aes.mixcolumns':
            ps += [p for p in c02.aes_patches() if p[1] == 'gmul']
        return patched(ps)

    def impl(self, shape, args):
        fn, o = shape['fn'], shape.get('order')
        from crysp.bits import Bits
        from crysp.poly import Poly
        first = (lambda f, g: (f, g)) if o == 'fi_f' else (lambda f, g: (g, f))
        if fn.startswith('aes.'):
            import crysp.aes as aes
            A = aes.AES(bytes(16))
            st = Poly(args[0])
            if fn == 'aes.sbox':
                f, g = first(aes.Sbox, aes.Sbox_inv)
                return list(g(f(st)).ival)
            if fn == 'aes.shiftrows':
                f, g = first(A.ShiftRows, A.InvShiftRows)
            else:
                f, g = first(A.MixColumns, A.InvMixColumns)
            f(st); g(st)
            return list(st.ival)
        if fn == 'des.ip':
            import crysp.des as des
            f, g = first(des.IP, des.IPinv)
            r = g(f(Bits(args[0], 64)))
            return [r.ival, r.size]
        if fn.startswith('serpent.'):
            import crysp.serpent as sp
            X = Bits(args[0], 128)
            if fn == 'serpent.s':
                n = shape['n']
                f, g = first(lambda x: sp._S(n, x), lambda x: sp._Sinv(n, x))
            elif fn == 'serpent.ipfp':
                f, g = first(sp._IP, sp._FP)
            else:
                f, g = first(sp._L, sp._Linv)
            r = g(f(X))
            return [r.ival, r.size]
        if fn == 'rot':
            from crysp.utils.operators import rol, ror
            a = Bits(args[0], shape['w'])
            k = shape['k']
            r1, r2 = rol(ror(a, k), k), ror(rol(a, k), k)
            return [r1.ival, r1.size, r2.ival, r2.size]
        mod = __import__('crysp.salsa20' if fn.startswith('salsa') else 'crysp.chacha', fromlist=['x'])
        m, mi = (mod.rM, mod.rMinv) if fn.endswith('rM') else (mod.cM, mod.cMinv)
        y = Poly(list(args[0]), 32)
        f, g = first(lambda v: v[m], lambda v: v[mi])
        return list(g(f(y)).ival)

    def spec(self, shape, args):
        fn = shape['fn']
        if fn.startswith('aes.'):
            return list(args[0])
        if fn == 'des.ip':
            return [args[0], 64]
        if fn.startswith('serpent.'):
            return [args[0], 128]
        if fn == 'rot':
            return [args[0], shape['w'], args[0], shape['w']]
        return list(args[0])


for c in (RoundTrip, Pairs):
    register(c())


# ---- lemmas for the stubs this check relies on (see props.common.Borrowed) ----
from props.common import Borrowed, REGISTRY
from props import c01 as _c01
register(Borrowed(REGISTRY['C01.reverse_byte'], 'C03', 'reverse_byte'))
from props import c02 as _c02
register(Borrowed(REGISTRY['C02.leaf'], 'C03', 'cipher_leaves', keep=lambda sh: sh.get('fn') in ('aes.S', 'aes.Si', 'aes.gmulc', 'des.S', 'serpent.S', 'serpent.Si')))
