"""C15 - CRC-32 equals the standard; the generic table-driven CRC equals bitwise division; the forging helpers hit any target.
Data bytes, initial/final values, targets and (for the table lemma) the polynomial are solver variables."""
from props.common import Case, register, MustRaise, NoClaim, getitem

POLY32 = 0xEDB88320
POLYS = [(0x8C, 8), (0xA001, 16), (0x8408, 16), (0xEDB88320, 32), (0x82F63B78, 32), (0xC96C5795D7870F42, 64)]


def _b(xs):
    if all(isinstance(v, int) for v in xs):
        return bytes(xs)
    from symx.core import SymBytes
    return SymBytes(xs)


def sel(c, a, b):
    "a if c else b, for ints or symbolic values (c: bool / symbolic condition)"
    if isinstance(c, bool):
        return a if c else b
    from symx.core import ite
    return ite(c, a, b)


def bit_step(c, P):
    "one step of reflected polynomial division"
    return sel((c & 1) != 0, (c >> 1) ^ P, c >> 1)


def crc_bits(data, P, width, init=0, final=0):
    "bit-by-bit reflected CRC (the definition): no table"
    c = init
    for b in data:
        c = c ^ b
        for k in range(8):
            c = bit_step(c, P)
    return c ^ final


def back_step_bit(c, P, width):
    "inverse of bit_step for a polynomial with its top bit set"
    top = (c >> (width - 1)) & 1
    M = (1 << width) - 1
    return sel(top != 0, (((c ^ P) << 1) | 1) & M, (c << 1) & M)


class Table(Case):
    prop = 'C15'
    name = 'C15.table'
    kind = 'L'
    timeout_s = 600
    bounds = ('crc_table(P)[i] for a SYMBOLIC index i and (a) the six listed polynomials, (b) a fully SYMBOLIC polynomial of width 8, 16, 32 == 8 bitwise division steps of i; '
              'module table TABLE32_1[i]; crc_back_table(P)[i] is the 8-step inverse for symbolic i (P with top bit set)')

    def shapes(self, tier):
        for P, w in POLYS:
            yield dict(kind='fwd', P=P, w=w)
            yield dict(kind='bwd', P=P, w=w)
        for w in (8, 16, 32):
            yield dict(kind='fwd', P='sym', w=w)
        yield dict(kind='module', P=POLY32, w=32)

    def mk(self, shape, src):
        P = src.int('P', shape['w']) if shape['P'] == 'sym' else shape['P']
        return (src.int('i', 8), P)

    def impl(self, shape, args):
        import crysp.crc as C
        from crysp.bits import Bits
        i, P = args
        w = shape['w']
        if shape['kind'] == 'module':
            t = getitem(C.TABLE32_1, i)
            tb = getitem(C.TABLE32_1b, i)
            return [t.ival, t.size, tb.ival, tb.size]
        if shape['kind'] == 'fwd':
            t = C.crc_table(Bits(P, w))
            # symbolic polynomial: enumerate the index by solver-driven forking (256 cheap paths) instead of one ite-chain
            v = t[i] if shape['P'] == 'sym' else getitem(t, i)
        else:
            t = C.crc_back_table(Bits(P, w))
            v = getitem(t, i)
        return [v.ival, v.size]

    def spec(self, shape, args):
        i, P = args
        w = shape['w']

        def fwd(i):
            c = i
            for k in range(8):
                c = bit_step(c, P)
            return c

        def bwd(i):
            c = i << (w - 8)
            for k in range(8):
                c = back_step_bit(c, P, w)
            return c
        if shape['kind'] == 'module':
            return [fwd(i), w, bwd(i), w]
        return [fwd(i) if shape['kind'] == 'fwd' else bwd(i), w]


class Step(Case):
    prop = 'C15'
    name = 'C15.step'
    kind = 'I'
    timeout_s = 600
    bounds = ('inductive step: crc(one symbolic byte, table, Xinit = ARBITRARY symbolic register) == 8 bitwise steps, for the six polynomials (so crc of any length is bitwise '
              'division); crc_back_pos undoes one byte from an arbitrary register (CRC-32)')

    def shapes(self, tier):
        for P, w in POLYS:
            yield dict(kind='fwd', P=P, w=w)
        yield dict(kind='back', P=POLY32, w=32)

    def mk(self, shape, src):
        return (src.int('r', shape['w']), src.bytes('d', 1))

    def impl(self, shape, args):
        import crysp.crc as C
        from crysp.bits import Bits
        r, d = args
        if shape['kind'] == 'fwd':
            t = C.crc_table(Bits(shape['P'], shape['w']))
            return C.crc(d, t, r)
        # forward from register r over d, then backward must return r
        c = C.crc(d, C.TABLE32_1, r) ^ 0xffffffff
        return C.crc32_back_pos(d, 0, c)

    def spec(self, shape, args):
        r, d = args
        if shape['kind'] == 'fwd':
            return crc_bits(list(d), shape['P'], shape['w'], r)
        return r


class Crc(Case):
    prop = 'C15'
    name = 'C15.crc'
    timeout_s = 900
    bounds = ('crc32(data) for every |data| 0..8 (quick) / 0..16 (thorough) == bitwise CRC-32 (== zlib.crc32 on replay); crc(data, crc_table(P), init, final) with SYMBOLIC init and final for the '
              'six polynomials, |data| in {0,1,2,5}; non-bytes input returns None')

    def shapes(self, tier):
        for n in range(0, 9 if tier == 'quick' else 17):
            yield dict(kind='crc32', n=n)
        for P, w in POLYS:
            for n in (0, 1, 2, 5):
                yield dict(kind='gen', P=P, w=w, n=n, fin='sym')

    def mk(self, shape, src):
        if shape['kind'] == 'crc32':
            return (src.bytes('d', shape['n']),)
        return (src.bytes('d', shape['n']), src.int('init', shape['w']), src.int('fin', shape['w']) if shape['fin'] == 'sym' else shape['fin'])

    def impl(self, shape, args):
        import crysp.crc as C
        from crysp.bits import Bits
        if shape['kind'] == 'crc32':
            return C.crc32(args[0])
        t = C.crc_table(Bits(shape['P'], shape['w']))
        return C.crc(args[0], t, args[1], args[2])

    def spec(self, shape, args):
        if shape['kind'] == 'crc32':
            v = crc_bits(list(args[0]), POLY32, 32, 0xffffffff, 0xffffffff)
            if not self.symbolic:
                import zlib
                assert zlib.crc32(bytes(args[0])) == v
            return v
        return crc_bits(list(args[0]), shape['P'], shape['w'], args[1], args[2])


class Fix(Case):
    prop = 'C15'
    name = 'C15.fix'
    timeout_s = 900
    bounds = ('crc32_fix(data,t) and crc32_fix_pos(data,pos,t) with SYMBOLIC data and SYMBOLIC 32-bit target: |data| 4..8 (quick) / 4..12 (thorough), every pos 0..|data|-4 (quick: 4 positions for |data|>6): same length, '
              'bytes outside the 4-byte window equal to the input, crc32 of the result (bitwise model) == t')

    def shapes(self, tier):
        for n in range(4, 9 if tier == 'quick' else 13):
            yield dict(kind='fix', n=n)
            for pos in range(0, n - 3):
                if tier == 'quick' and n > 6 and pos not in (0, 1, n - 5, n - 4):
                    continue
                yield dict(kind='pos', n=n, pos=pos)

    def mk(self, shape, src):
        return (src.bytes('d', shape['n']), src.int('t', 32))

    def impl(self, shape, args):
        import crysp.crc as C
        d, t = args
        n = shape['n']
        if shape['kind'] == 'fix':
            out = C.crc32_fix(d, t)
            pos = n - 4
        else:
            pos = shape['pos']
            out = C.crc32_fix_pos(d, pos, t)
        out = list(out)
        return dict(n=len(out), before=_b(out[:pos]), after=_b(out[pos + 4:]),
                    crc=crc_bits(out, POLY32, 32, 0xffffffff, 0xffffffff))

    def spec(self, shape, args):
        d, t = args
        n = shape['n']
        pos = n - 4 if shape['kind'] == 'fix' else shape['pos']
        d = list(d)
        return dict(n=n, before=_b(d[:pos]), after=_b(d[pos + 4:]), crc=t)


for c in (Table, Step, Crc, Fix):
    register(c())
