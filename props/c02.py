"""C02 - AES, DES/TDEA, Serpent and Threefish encrypt/decrypt exactly as standardized, for every key, tweak and block.
Skeleton obligations: key, tweak and block are ALL symbolic; non-linear tables are uninterpreted functions on both sides
(lemmas: every real table entry / leaf equals the standard for a symbolic index); GF(2)-linear layers (MixColumns through a
proved linear summary of gmul, permutations, rotations, xors) are normalised bit-level; Threefish needs no abstraction."""
from props.common import Case, register, MustRaise, NoClaim, getitem
from refs import ciphers as RC


def _b(xs):
    if all(isinstance(v, int) for v in xs):
        return bytes(xs)
    from symx.core import SymBytes
    return SymBytes(xs)


# ---- uninterpreted leaves (engine side) -----------------------------------------------------------------------
UFC = {'AS': lambda x: RC.AES_S[x], 'ASi': lambda x: RC.AES_SI[x]}
for _n in range(8):
    UFC['DS%d' % _n] = (lambda n: lambda x: RC.DES_S[n][x])(_n)
    UFC['SS%d' % _n] = (lambda n: lambda X: RC.serpent_sbox(RC.SERPENT_S[n], X))(_n)
    UFC['SI%d' % _n] = (lambda n: lambda X: RC.serpent_sbox(RC.SERPENT_SI[n], X))(_n)


def _uf(name, w, args, widths):
    from symx.harness import uf_call
    return uf_call(name, w, list(args), list(widths), UFC[name])


class AesUF(object):
    @staticmethod
    def S(x): return _uf('AS', 8, [x], [8])
    @staticmethod
    def Si(x): return _uf('ASi', 8, [x], [8])


class DesUF(object):
    @staticmethod
    def S(n, idx): return _uf('DS%d' % n, 4, [idx], [6])


class SerpentUF(object):
    @staticmethod
    def S(i, X): return _uf('SS%d' % i, 128, [X], [128])
    @staticmethod
    def Si(i, X): return _uf('SI%d' % i, 128, [X], [128])


def aes_patches():
    import crysp.aes as aes
    from symx.core import SymInt

    class UFList(list):
        def __init__(self, real, name):
            list.__init__(self, real)
            self.name = name

        def __getitem__(self, i):
            if isinstance(i, SymInt):
                return _uf(self.name, 8, [i], [8])
            return list.__getitem__(self, i)
    real_gmul = aes.gmul

    def gmul_lin(a, n):
        "summary of gmul(a, constant): the GF(2)-linear xtime form (lemma C02.leaf gmulc)"
        if not isinstance(a, SymInt):
            if isinstance(n, SymInt) and isinstance(a, int) and a in (2, 3, 9, 11, 13, 14):
                return RC.gf_mulc(n, a)          # gmul(constant, x): same closed form (lemma C02.leaf gmulc with swap)
            return real_gmul(a, n)
        assert isinstance(n, int) and n in (2, 3, 9, 11, 13, 14), 'gmul summary used outside the domain its lemma covers'
        return RC.gf_mulc(a, n)
    return [(aes.AES.sboxtable, 'ival', UFList(aes.AES.sboxtable.ival, 'AS')),
            (aes.AES.sboxinvtable, 'ival', UFList(aes.AES.sboxinvtable.ival, 'ASi')), (aes, 'gmul', gmul_lin)]


def des_patches():
    import crysp.des as des
    from crysp.bits import Bits
    from symx.core import SymInt
    real_S = des.S

    def S(n, x):
        if not isinstance(x, SymInt):
            return real_S(n, x)
        assert 0 <= n < 8
        return Bits(_uf('DS%d' % n, 4, [x], [6]), 4)
    return [(des, 'S', S)]


def serpent_patches():
    import crysp.serpent as sp
    from crysp.bits import Bits
    from symx.core import SymInt
    rS, rSi = sp._S, sp._Sinv

    def S(i, X):
        if not isinstance(X.ival, SymInt):
            return rS(i, X)
        assert 0 <= i < 8 and X.size == 128
        return Bits(_uf('SS%d' % i, 128, [X.ival], [128]), 128)

    def Si(i, X):
        if not isinstance(X.ival, SymInt):
            return rSi(i, X)
        assert 0 <= i < 8 and X.size == 128
        return Bits(_uf('SI%d' % i, 128, [X.ival], [128]), 128)
    return [(sp, '_S', S), (sp, '_Sinv', Si)]


def patches_for(cipher):
    from symx.stubs import reverse_byte_patches
    ps = reverse_byte_patches()
    if cipher.startswith('aes'):
        ps += aes_patches()
    elif cipher in ('des', 'tdea'):
        ps += des_patches()
    elif cipher == 'serpent':
        ps += serpent_patches()
    return ps


# ---- construction of the real objects / reference calls -------------------------------------------------------------
def real_cipher(shape, K, T=None):
    c = shape['cipher']
    if c.startswith('aes'):
        from crysp.aes import AES
        return AES(K)
    if c == 'des':
        from crysp.des import DES
        return DES(K)
    if c == 'tdea':
        from crysp.des import TDEA
        f = shape['form']
        if f == '1': return TDEA(K[0:8])
        if f == '2': return TDEA(K[0:8], K[8:16])
        if f == '3': return TDEA(K[0:8], K[8:16], K[16:24])
        return TDEA(K)                     # one string of 8, 16 or 24 bytes
    if c == 'serpent':
        from crysp.serpent import Serpent
        if shape.get('kbits'):
            from crysp.bits import Bits
            return Serpent(Bits(K, shape['kbits']))        # key given as a bit vector of any length up to 256
        return Serpent(K)
    if c.startswith('threefish'):
        from crysp.threefish import Threefish
        return Threefish(K, T)
    raise ValueError(c)


def tdea_keys(shape, K):
    K = list(K)
    f = shape['form']
    if f in ('1', 's8'): return (K[0:8], K[0:8], K[0:8])
    if f in ('2', 's16'): return (K[0:8], K[8:16], K[0:8])
    return (K[0:8], K[8:16], K[16:24])


def ref_crypt(shape, K, T, B, decrypt, symbolic):
    c = shape['cipher']
    B = list(B)
    if c == 'serpent' and shape.get('kbits'):
        lv = SerpentUF if symbolic else RC.SerpentStd
        return (RC.serpent_dec if decrypt else RC.serpent_enc)(K, B, lv, shape['kbits'])
    K = list(K)
    if c.startswith('aes'):
        lv = AesUF if symbolic else RC.AesStd
        return (RC.aes_dec if decrypt else RC.aes_enc)(K, B, lv)
    if c == 'des':
        return RC.des_crypt(K, B, decrypt, DesUF if symbolic else RC.DesStd)
    if c == 'tdea':
        return RC.tdea(tdea_keys(shape, K), B, decrypt, DesUF if symbolic else RC.DesStd)
    if c == 'serpent':
        lv = SerpentUF if symbolic else RC.SerpentStd
        return (RC.serpent_dec if decrypt else RC.serpent_enc)(K, B, lv)
    return (RC.threefish_dec if decrypt else RC.threefish_enc)(K, list(T), B)


def configs(tier):
    out = [dict(cipher='aes128', kl=16, bl=16), dict(cipher='aes192', kl=24, bl=16), dict(cipher='aes256', kl=32, bl=16),
           dict(cipher='des', kl=8, bl=8)]
    for f, kl in (('1', 8), ('2', 16), ('3', 24), ('s8', 8), ('s16', 16), ('s24', 24)):
        out.append(dict(cipher='tdea', form=f, kl=kl, bl=8))
    for kl in ((1, 15, 16, 24, 31, 32) if tier == 'quick' else range(1, 33)):
        out.append(dict(cipher='serpent', kl=kl, bl=16))
    for kb in ((1, 7, 129, 255) if tier == 'quick' else (1, 2, 7, 9, 31, 33, 63, 65, 127, 129, 191, 193, 254, 255)):
        out.append(dict(cipher='serpent', kl=0, kbits=kb, bl=16))
    for n in (32, 64, 128):
        out.append(dict(cipher='threefish%d' % (8 * n), kl=n, bl=n, tl=16))
    return out


class Crypt(Case):
    prop = 'C02'
    name = 'C02.crypt'
    uf_concrete = UFC
    timeout_s = 900
    bounds = ('enc(B) and dec(B) with key, tweak and block ALL symbolic: AES-128/192/256, DES, TDEA in its six call forms (1/2/3 key arguments; one string of 8/16/24 bytes), '
              'Serpent with key length 1,15,16,24,31,32 bytes (quick) / every 1..32 (thorough) and keys given as bit vectors of 1,7,129,255 bits (quick; 14 odd lengths thorough), Threefish-256/512/1024; result has the block length')
    outside = 'Serpent bit-vector keys of lengths other than those enumerated'
    stub_note = ('UF leaves: AES S-box/inverse S-box (byte), DES S1..S8 (6->4 bit), Serpent S0..S7 and inverses (bitslice, 128->128) with lemmas C02.leaf; '
                 'summary gmul(a,c) -> xtime form with lemma C02.leaf gmul; reverse_byte summary (lemma C01/C07)')

    def shapes(self, tier):
        for cfg in configs(tier):
            for d in ('enc', 'dec'):
                yield dict(cfg, dir=d)

    def mk(self, shape, src):
        K = src.int('Kb', shape['kbits']) if shape.get('kbits') else src.bytes('K', shape['kl'])
        return (K, src.bytes('T', shape.get('tl', 0)), src.bytes('B', shape['bl']))

    def stubs(self, shape):
        from symx.harness import patched
        return patched(patches_for(shape['cipher']))

    def impl(self, shape, args):
        K, T, B = args
        o = real_cipher(shape, K, T)
        return o.enc(B) if shape['dir'] == 'enc' else o.dec(B)

    def spec(self, shape, args):
        K, T, B = args
        r = ref_crypt(shape, K, T, B, shape['dir'] == 'dec', self.symbolic)
        assert len(r) == shape['bl']
        return _b(r)


class Reject(Case):
    prop = 'C02'
    name = 'C02.reject'
    timeout_s = 300
    bounds = ('keys, tweaks and blocks of undefined size must raise (data symbolic): AES key lengths 0..40 except 16/24/32 and block lengths 0..40 except 16; DES key/block 0..20 except 8; '
              'TDEA string keys 0..40 except 8/16/24; Serpent key lengths 0 and 33..40, blocks 0..40 except 16; Threefish key lengths {0,8,16,31,33,48,63,65,96,127,129} , tweak lengths 0..32 except 16, blocks of the wrong size')

    def shapes(self, tier):
        for kl in range(0, 41):
            if kl not in (16, 24, 32):
                yield dict(cipher='aes128', what='key', kl=kl, bl=16)
            if kl != 16:
                yield dict(cipher='aes128', what='block', kl=16, bl=kl)
                yield dict(cipher='aes256', what='blockdec', kl=32, bl=kl)
                yield dict(cipher='serpent', what='block', kl=16, bl=kl)
            if kl > 32:
                yield dict(cipher='serpent', what='key', kl=kl, bl=16)
            if kl not in (8, 16, 24):
                yield dict(cipher='tdea', form='str', what='key', kl=kl, bl=8)
        for kl in range(0, 21):
            if kl != 8:
                yield dict(cipher='des', what='key', kl=kl, bl=8)
                yield dict(cipher='des', what='block', kl=8, bl=kl)
        for kl in (0, 8, 16, 31, 33, 48, 63, 65, 96, 127, 129):
            yield dict(cipher='threefish', what='key', kl=kl, bl=32, tl=16)
        for tl in range(0, 33):
            if tl != 16:
                yield dict(cipher='threefish', what='tweak', kl=32, bl=32, tl=tl)
        for kl, bl in ((32, 31), (32, 33), (32, 64), (64, 32), (64, 128), (128, 64), (128, 127)):
            yield dict(cipher='threefish', what='block', kl=kl, bl=bl, tl=16)

    def mk(self, shape, src):
        return (src.bytes('K', shape['kl']), src.bytes('T', shape.get('tl', 0)), src.bytes('B', shape['bl']))

    def stubs(self, shape):
        from symx.harness import patched
        return patched(patches_for({'threefish': 'threefish256'}.get(shape['cipher'], shape['cipher'])))

    def impl(self, shape, args):
        K, T, B = args
        o = real_cipher(dict(shape, form='str'), K, T)
        if shape['what'] == 'blockdec':
            return o.dec(B)
        return o.enc(B)

    def spec(self, shape, args):
        if shape['cipher'] == 'serpent' and shape['what'] == 'key' and shape['kl'] == 0:
            raise NoClaim('the empty Serpent key is not demanded')
        raise MustRaise()


class Leaf(Case):
    prop = 'C02'
    name = 'C02.leaf'
    kind = 'L'
    timeout_s = 900
    max_paths = 3000
    bounds = ('AES sboxtable[i]/sboxinvtable[i] for a symbolic index == affine(inverse) computed in GF(2^8); gmul(a,c) and gmul(c,a) for symbolic a and c in {2,3,9,11,13,14} == xtime form; '
              'gmul(a,b) for 17 values of b (quick) / every b in 0..255 (thorough: all 65536 pairs) with a symbolic; plus 5 values of a with b symbolic == multiplication modulo x^8+x^4+x^3+x+1; DES S(n,x) for symbolic x (8 boxes), IP, IPinv, PC1, PC2, E, P as bit permutations of symbolic words; '
              'Serpent _S/_Sinv (8 boxes each) on a symbolic 128-bit state == bitslice S-box, _IP/_FP, _L/_Linv == reference')

    def shapes(self, tier):
        yield dict(fn='aes.S')
        yield dict(fn='aes.Si')
        for c in (2, 3, 9, 11, 13, 14):
            yield dict(fn='aes.gmulc', c=c)
            yield dict(fn='aes.gmulc', c=c, swap=1)      # constant as FIRST operand (the summary accepts either order)
        for b in (range(256) if tier == 'thorough' else (0, 1, 2, 3, 4, 9, 11, 13, 14, 0x1b, 0x53, 0x57, 0x80, 0x83, 0xca, 0xfe, 0xff)):
            yield dict(fn='aes.gmul', b=b)          # second operand enumerated, first symbolic: all 65536 pairs
        for a in (0, 1, 2, 0x53, 0xff):
            yield dict(fn='aes.gmul', a=a)          # and the other way round
        for n in range(8):
            yield dict(fn='des.S', n=n)
        for p in ('IP', 'IPinv', 'PC1', 'PC2', 'E', 'P'):
            yield dict(fn='des.' + p)
        for n in range(8):
            yield dict(fn='serpent.S', n=n)
            yield dict(fn='serpent.Si', n=n)
        for p in ('L', 'Linv', 'IP', 'FP'):
            yield dict(fn='serpent.' + p)

    def mk(self, shape, src):
        fn = shape['fn']
        if fn in ('aes.S', 'aes.Si', 'aes.gmulc'):
            return (src.int('x', 8),)
        if fn == 'aes.gmul':
            return (shape['a'] if 'a' in shape else src.int('a', 8), shape['b'] if 'b' in shape else src.int('b', 8))
        if fn == 'des.S':
            return (src.int('x', 6),)
        if fn.startswith('des.'):
            w = {'IP': 64, 'IPinv': 64, 'PC1': 64, 'PC2': 56, 'E': 32, 'P': 32}[fn[4:]]
            return (src.int('x', w),)
        return (src.int('X', 128),)

    def stubs(self, shape):
        from symx.harness import patched
        from symx.stubs import reverse_byte_patches
        return patched(reverse_byte_patches())

    def impl(self, shape, args):
        fn = shape['fn']
        from crysp.bits import Bits
        if fn.startswith('aes.'):
            import crysp.aes as aes
            if fn == 'aes.S': return getitem(aes.AES.sboxtable.ival, args[0])
            if fn == 'aes.Si': return getitem(aes.AES.sboxinvtable.ival, args[0])
            if fn == 'aes.gmulc': return aes.gmul(shape['c'], args[0]) if shape.get('swap') else aes.gmul(args[0], shape['c'])
            return aes.gmul(args[0], args[1])
        if fn.startswith('des.'):
            import crysp.des as des
            if fn == 'des.S':
                r = des.S(shape['n'], args[0])
                return [r.ival, r.size]
            w = {'IP': 64, 'IPinv': 64, 'PC1': 64, 'PC2': 56, 'E': 32, 'P': 32}[fn[4:]]
            r = getattr(des, fn[4:])(Bits(args[0], w))
            return [r.ival, r.size]
        import crysp.serpent as sp
        f = {'S': lambda X: sp._S(shape['n'], X), 'Si': lambda X: sp._Sinv(shape['n'], X), 'L': sp._L, 'Linv': sp._Linv,
             'IP': sp._IP, 'FP': sp._FP}[fn[8:]]
        r = f(Bits(args[0], 128))
        return [r.ival, r.size]

    def spec(self, shape, args):
        fn = shape['fn']
        if fn == 'aes.S': return RC.lookup(RC.AES_S, args[0])
        if fn == 'aes.Si': return RC.lookup(RC.AES_SI, args[0])
        if fn == 'aes.gmulc': return RC.gf_mulc(args[0], shape['c'])
        if fn == 'aes.gmul': return RC.gf_mul(args[0], args[1])
        if fn == 'des.S':
            return [RC.lookup(RC.DES_S[shape['n']], args[0]), 4]
        if fn.startswith('des.'):
            name = fn[4:]
            tab = {'IP': RC.DES_IP, 'IPinv': RC.DES_FP, 'PC1': RC.DES_PC1, 'PC2': RC.DES_PC2, 'E': RC.DES_E, 'P': RC.DES_P}[name]
            x = args[0]
            # crysp bit i (LSB first) is FIPS bit i+1
            v = 0
            for j, t in enumerate(tab):
                v = v | (((x >> (t - 1)) & 1) << j)
            return [v, len(tab)]
        X = args[0]
        n = shape.get('n')
        if fn == 'serpent.S': return [RC.serpent_sbox(RC.SERPENT_S[n], X), 128]
        if fn == 'serpent.Si': return [RC.serpent_sbox(RC.SERPENT_SI[n], X), 128]
        if fn == 'serpent.L': return [RC.serpent_L(X), 128]
        if fn == 'serpent.Linv': return [RC.serpent_Linv(X), 128]
        # IP / FP of the submission: IP moves bit i to position (32*(i%4) ... ) - defined through the bitslice/standard relation
        bits = [(X >> i) & 1 for i in range(128)]
        if fn == 'serpent.IP':
            out = [bits[32 * (j % 4) + j // 4] for j in range(128)]
        else:
            out = [bits[4 * (j % 32) + j // 32] for j in range(128)]
        v = 0
        for j, b in enumerate(out):
            v = v | (b << j)
        return [v, 128]


for c in (Crypt, Reject, Leaf):
    register(c())


# ---- lemmas for the stubs this check relies on (see props.common.Borrowed) ----
from props.common import Borrowed, REGISTRY
from props import c01 as _c01
register(Borrowed(REGISTRY['C01.reverse_byte'], 'C02', 'reverse_byte'))
