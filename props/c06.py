"""C06 - Salsa20, ChaCha, RC4: specified keystream, length-preserving xor streams, continuity.
Key, nonce, message (and, through the guarded hook, the 64-bit block index) are symbolic; lengths, key sizes and round
counts are enumerated.  No uninterpreted functions: add/rotate/xor stay word-level, RC4's permutation is an ite-array."""
from props.common import Case, register, MustRaise, NoClaim
from refs import stream as RS


def _b(xs):
    if all(isinstance(v, int) for v in xs):
        return bytes(xs)
    from symx.core import SymBytes
    return SymBytes(xs)


def rb():
    from symx.harness import patched
    from symx.stubs import reverse_byte_patches
    return patched(reverse_byte_patches())


def make(shape, K):
    from crysp.bits import Bits
    kb = Bits(K, bitorder=1)
    if shape['algo'] == 'salsa':
        from crysp.salsa20 import Salsa20
        return Salsa20(kb, shape['rounds'])
    from crysp.chacha import Chacha
    return Chacha(kb, shape['rounds'])


def block_fn(shape, K, N):
    f = RS.salsa_block if shape['algo'] == 'salsa' else RS.chacha_block
    return lambda i: f(list(K), list(N), i, shape['rounds'])


class Stream(Case):
    prop = 'C06'
    name = 'C06.stream'
    timeout_s = 900
    bounds = ('Salsa20 and ChaCha enc(v,M) == M xor KS_spec[0:|M|], dec(v,enc(v,M)) == M, prefix property: key 128 and 256 bits, nonce, message ALL symbolic; rounds 20 and 8 with '
              '|M| in {0,1,63,64,65,128,130} (quick) / 0..200 (thorough), every even round count 2..20 at |M|=65; with the guarded hook the first block index is a SYMBOLIC 64-bit '
              'value below 2^64-3 (covers the carry from the low to the high counter word) for |M| in {1,65,130}')
    outside = 'messages longer than 130 (quick) / 200 bytes; odd or non-positive round counts must be refused (checked)'

    def shapes(self, tier):
        for algo in ('salsa', 'chacha'):
            for kl in (16, 32):
                for rounds in (20, 8):
                    ns = (0, 1, 63, 64, 65, 128, 130) if tier == 'quick' else range(0, 201)
                    for n in ns:
                        yield dict(algo=algo, kl=kl, rounds=rounds, n=n, what='enc')
                    for n in (1, 65, 130):
                        yield dict(algo=algo, kl=kl, rounds=rounds, n=n, what='rt')
                    for n in (1, 65, 130):
                        yield dict(algo=algo, kl=kl, rounds=rounds, n=n, what='ctr')
                    yield dict(algo=algo, kl=kl, rounds=rounds, n=130, what='prefix', m=67)
                for rounds in range(2, 21, 2):
                    yield dict(algo=algo, kl=kl, rounds=rounds, n=65, what='enc')
            for rounds in (0, 1, 3, -2):
                yield dict(algo=algo, kl=16, rounds=rounds, n=1, what='badrounds')

    def mk(self, shape, src):
        return (src.bytes('K', shape['kl']), src.bytes('N', 8), src.bytes('M', shape['n']), src.int('i0', 64, 0, (1 << 64) - 4) if shape['what'] == 'ctr' else 0)

    def stubs(self, shape):
        return rb()

    def impl(self, shape, args):
        from crysp.bits import Bits
        K, N, M, i0 = args
        o = make(shape, K)
        v = Bits(N, bitorder=1)
        w = shape['what']
        if w == 'badrounds':
            return o.enc(v, M)
        if w == 'ctr':
            o._verif_block0 = i0
            return o.enc(v, M)
        c = o.enc(v, M)
        if w == 'enc':
            return c
        if w == 'rt':
            return dict(n=len(c), m=make(shape, K).dec(v, c))
        return dict(full=c, pre=make(shape, K).enc(v, M[:shape['m']]))

    def spec(self, shape, args):
        K, N, M, i0 = args
        w = shape['what']
        if w == 'badrounds':
            raise MustRaise()
        ct = RS.stream_xor(block_fn(shape, K, N), M, i0 if w == 'ctr' else 0)
        if w == 'ctr':
            # the counter is 64 bits wide: block indices wrap modulo 2^64 is outside the specification; stay below
            return _b(ct)
        if w == 'enc':
            return _b(ct)
        if w == 'rt':
            return dict(n=shape['n'], m=M if isinstance(M, bytes) else _b(list(M)))
        return dict(full=_b(ct), pre=_b(ct[:shape['m']]))


class Core(Case):
    prop = 'C06'
    name = 'C06.core'
    kind = 'L'
    bounds = ('Salsa20().hash(X) for 64 symbolic bytes == core(X) of the specification; quarterround / rowround / columnround / doubleround of both classes on symbolic words == specification; '
              'core(X, dround) for every dround 1..10 on 16 symbolic words')

    def shapes(self, tier):
        yield dict(fn='hash')
        for algo in ('salsa', 'chacha'):
            for fn in ('qr', 'row', 'col', 'dbl'):
                yield dict(fn=fn, algo=algo)
            for d in range(1, 11):
                yield dict(fn='core', algo=algo, d=d)

    def mk(self, shape, src):
        if shape['fn'] == 'hash':
            return (src.bytes('X', 64),)
        n = 4 if shape['fn'] == 'qr' else 16
        return ([src.int('w%d' % i, 32) for i in range(n)],)

    def stubs(self, shape):
        return rb()

    def impl(self, shape, args):
        from crysp.poly import Poly
        if shape['fn'] == 'hash':
            from crysp.salsa20 import Salsa20
            return Salsa20().hash(args[0])
        if shape['algo'] == 'salsa':
            from crysp.salsa20 import Salsa20 as C
        else:
            from crysp.chacha import Chacha as C
        o = C()
        y = Poly(list(args[0]), 32)
        f = {'qr': o.quarterround, 'row': o.rowround, 'col': o.columnround, 'dbl': o.doubleround}.get(shape['fn'])
        r = f(y) if f else o.core(y, dround=shape['d'])
        if hasattr(r, 'ival') and isinstance(r.ival, list):
            return list(r.ival)
        return [x.ival for x in r.split(32)]

    def spec(self, shape, args):
        fn = shape['fn']
        if fn == 'hash':
            return _b(RS.le_bytes(RS.salsa_core(RS.le_words(list(args[0])))))
        w = list(args[0])
        if shape['algo'] == 'salsa':
            if fn == 'qr': return list(RS.salsa_qr(*w))
            if fn == 'row': return RS.salsa_rowround(w)
            if fn == 'col': return RS.salsa_columnround(w)
            if fn == 'dbl': return RS.salsa_rowround(RS.salsa_columnround(w))
            return RS.salsa_core(w, 2 * shape['d'])
        if fn == 'qr': return list(RS.chacha_qr(*w))
        rows = ((0, 5, 10, 15), (1, 6, 11, 12), (2, 7, 8, 13), (3, 4, 9, 14))
        cols = ((0, 4, 8, 12), (1, 5, 9, 13), (2, 6, 10, 14), (3, 7, 11, 15))

        def rnd(z, idx):
            z = list(z)
            for (a, b, c, d) in idx:
                z[a], z[b], z[c], z[d] = RS.chacha_qr(z[a], z[b], z[c], z[d])
            return z
        if fn == 'row': return rnd(w, rows)
        if fn == 'col': return rnd(w, cols)
        if fn == 'dbl': return rnd(rnd(w, cols), rows)
        return RS.chacha_core(w, 2 * shape['d'])


class Rc4(Case):
    prop = 'C06'
    name = 'C06.rc4'
    timeout_s = 1200
    bounds = ('RC4: key schedule with a SYMBOLIC key of 1 and 2 bytes (quick; 3,4,5,16 thorough) followed by 4 keystream bytes == specification; inductive step: from an ARBITRARY state '
              '(256 symbolic bytes in S, symbolic i and j) keystream(1), keystream(2), enc(M) for |M| in {0,1,3}, and keystream(1);keystream(2) == keystream(3) (one continuous stream); '
              'enc of the empty message has length 0; dec(enc(M)) from equal states; key lengths 0 and 257 are refused')
    outside = 'whole-key runs for keys longer than 2 (quick) / 16 bytes (the KSA loop body is the same swap step for every i; the PRGA step is covered from an arbitrary state)'

    def shapes(self, tier):
        for kl in ((1, 2) if tier == 'quick' else (1, 2, 3, 4, 5, 16)):
            yield dict(what='ksa', kl=kl)
        for n in (1, 2):
            yield dict(what='prga', n=n)
        for n in (0, 1, 3):
            yield dict(what='enc', n=n)
        yield dict(what='split')
        yield dict(what='dec', n=3)
        for kl in (0, 257):
            yield dict(what='badkey', kl=kl)

    def mk(self, shape, src):
        w = shape['what']
        if w in ('ksa', 'badkey'):
            return (src.bytes('K', shape['kl']),)
        S = [src.int('s%d' % k, 8) for k in range(256)]
        return (S, src.int('i', 8), src.int('j', 8), src.bytes('M', shape.get('n', 0)))

    def _obj(self, S, i, j):
        from crysp.rc4 import RC4
        from crysp.poly import Poly
        o = RC4(b'\x01')
        o.S = Poly(list(S), 8)
        o.i, o.j = i, j
        return o

    def impl(self, shape, args):
        from crysp.rc4 import RC4
        w = shape['what']
        if w == 'badkey':
            return RC4(args[0]).enc(b'x')
        if w == 'ksa':
            o = RC4(args[0])
            return dict(S=list(o.S.ival), ks=list(o.keystream(4).ival))
        S, i, j, M = args
        o = self._obj(S, i, j)
        if w == 'prga':
            ks = o.keystream(shape['n'])
            return dict(ks=list(ks.ival), S=list(o.S.ival), i=o.i, j=o.j)
        if w == 'enc':
            c = o.enc(M)
            return dict(c=c, S=list(o.S.ival), i=o.i, j=o.j)
        if w == 'split':
            a = list(o.keystream(1).ival) + list(o.keystream(2).ival)
            o2 = self._obj(S, i, j)
            return dict(a=a, b=list(o2.keystream(3).ival))
        c = o.enc(M)
        return self._obj(S, i, j).dec(c)

    def spec(self, shape, args):
        w = shape['what']
        if w == 'badkey':
            raise MustRaise()
        if w == 'ksa':
            S = RS.rc4_ksa(list(args[0]))
            S0 = list(S)
            ks, S2, _, _ = RS.rc4_prga(list(S), 0, 0, 4)
            return dict(S=S0, ks=ks)
        S, i, j, M = args
        if w == 'prga':
            ks, S2, i2, j2 = RS.rc4_prga(list(S), i, j, shape['n'])
            return dict(ks=ks, S=S2, i=i2, j=j2)
        if w == 'enc':
            ks, S2, i2, j2 = RS.rc4_prga(list(S), i, j, shape['n'])
            return dict(c=_b([a ^ b for a, b in zip(list(M), ks)]), S=S2, i=i2, j=j2)
        if w == 'split':
            ks, _, _, _ = RS.rc4_prga(list(S), i, j, 3)
            return dict(a=ks, b=ks)
        return M if isinstance(M, bytes) else _b(list(M))


for c in (Stream, Core, Rc4):
    register(c())


# ---- lemmas for the stubs this check relies on (see props.common.Borrowed) ----
from props.common import Borrowed, REGISTRY
from props import c01 as _c01
register(Borrowed(REGISTRY['C01.reverse_byte'], 'C06', 'reverse_byte'))
