"""C01 - MD4/MD5/SHA-0/SHA-1/SHA-2 digests equal the standards for every message (byte strings and bit prefixes).
Skeleton obligations: the real update/iterblocks/padding code with Ch/Maj/F/G/I as uninterpreted functions equals the
reference composition over the same functions, for every message of the enumerated (length, bit length) shape;
leaf lemmas: each real leaf equals the standard's formula for all inputs."""
from props.common import Case, register, MustRaise, NoClaim
from refs import mdsha
from refs.mdsha import StdLeaves, BLOCK, DIGEST, WBYTES, ALGOS

UFC = {}
for _w in (32, 64):
    UFC['Ch%d' % _w] = (lambda w: lambda x, y, z: StdLeaves.ch(x, y, z, w))(_w)
    UFC['Maj%d' % _w] = (lambda w: lambda x, y, z: StdLeaves.maj(x, y, z, w))(_w)
UFC['md_f'] = StdLeaves.md_f
UFC['md4_g'] = StdLeaves.md4_g
UFC['md5_g'] = StdLeaves.md5_g
UFC['md5_i'] = StdLeaves.md5_i


class UFLeaves(object):
    "same interface as StdLeaves, but uninterpreted (engine side)"
    @staticmethod
    def _u(name, w, args):
        from symx.harness import uf_call
        return uf_call(name, w, list(args), [w] * len(args), UFC[name])

    @staticmethod
    def ch(x, y, z, w): return UFLeaves._u('Ch%d' % w, w, (x, y, z))
    @staticmethod
    def maj(x, y, z, w): return UFLeaves._u('Maj%d' % w, w, (x, y, z))
    @staticmethod
    def md_f(x, y, z, w=32): return UFLeaves._u('md_f', 32, (x, y, z))
    @staticmethod
    def md4_g(x, y, z, w=32): return UFLeaves._u('md4_g', 32, (x, y, z))
    @staticmethod
    def md5_g(x, y, z, w=32): return UFLeaves._u('md5_g', 32, (x, y, z))
    @staticmethod
    def md5_i(x, y, z, w=32): return UFLeaves._u('md5_i', 32, (x, y, z))


def make(algo):
    "construct the real hash object"
    if algo in ('md4', 'md5'):
        import crysp.md as md
        return md.MD4() if algo == 'md4' else md.MD5()
    import crysp.sha as sha
    if algo == 'sha0': return sha.SHA1(0)
    if algo == 'sha1': return sha.SHA1(1)
    size, t = {'sha224': (224, 0), 'sha256': (256, 0), 'sha384': (384, 0), 'sha512': (512, 0),
               'sha512_224': (512, 224), 'sha512_256': (512, 256)}[algo]
    return sha.SHA2(size, t) if t else sha.SHA2(size)


def stub_obj(h, algo):
    "engine side: replace the closures MD4/MD5 keep in self.ft by UF stubs (SHA leaves are module globals, see hash_patches)"
    from symx.stubs import bits_uf
    if algo == 'md4':
        h.ft = [bits_uf('md_f', 32, UFC['md_f']), bits_uf('md4_g', 32, UFC['md4_g']), h.ft[2]]
    elif algo == 'md5':
        h.ft = [bits_uf('md_f', 32, UFC['md_f']), bits_uf('md5_g', 32, UFC['md5_g']), h.ft[2], bits_uf('md5_i', 32, UFC['md5_i'])]


def hash_patches(algo):
    from symx.stubs import bits_uf, reverse_byte_patches
    ps = reverse_byte_patches()
    if algo.startswith('sha'):
        import crysp.sha as sha
        w = 8 * WBYTES[algo]
        ps += [(sha, 'Ch', bits_uf('Ch%d' % w, w, UFC['Ch%d' % w])), (sha, 'Maj', bits_uf('Maj%d' % w, w, UFC['Maj%d' % w]))]
    return ps


def _b(xs):
    if all(isinstance(v, int) for v in xs):
        return bytes(xs)
    from symx.core import SymBytes
    return SymBytes(xs)


def lens_quick(algo):
    B, lf = BLOCK[algo], 2 * WBYTES[algo]
    s = set([0, 1, 3, B - lf - 2, B - lf - 1, B - lf, B - lf + 1, B - 1, B, B + 1, 2 * B - lf - 1, 2 * B - lf, 2 * B + 1])
    return sorted(s)


class Hash(Case):
    prop = 'C01'
    name = 'C01.hash'
    uf_concrete = UFC
    timeout_s = 300
    bounds = ('10 algorithms; quick: |M| in {0,1,3, spill boundary B-len-2..B-len+1, B-1,B,B+1, 2B-len-1, 2B-len, 2B+1} bytes, '
              'bit lengths L with L mod 8 in {1,4,7} at three lengths, surplus trailing bytes, L > 8|M| must raise; '
              'thorough: every |M| in 0..2B+1, every L mod 8 at the boundary lengths; all message bytes symbolic')
    outside = 'messages longer than 2B+1 bytes as whole runs; bitlen=0; counters above 2^32 blocks only via C01.lenfield'
    stub_note = 'UF leaves Ch/Maj (SHA), F/G/I (MD4/MD5) with lemmas C01.leaf; summary reverse_byte -> bit permutation with lemma C01.reverse_byte'

    def shapes(self, tier):
        for algo in ALGOS:
            B, lf = BLOCK[algo], 2 * WBYTES[algo]
            if tier == 'quick':
                ns = lens_quick(algo)
            else:
                ns = list(range(0, 2 * B + 2))
            for n in ns:
                yield dict(algo=algo, n=n, L=None)
            bnd = [1, B - lf, B, B + 1] if tier == 'quick' else sorted(set(lens_quick(algo)) - {0})
            for n in bnd:
                for r in ((1, 4, 7) if tier == 'quick' else range(1, 8)):
                    yield dict(algo=algo, n=n, L=8 * (n - 1) + r)
            # surplus bytes: bitlen cuts whole trailing bytes
            for n, L in ((3, 8), (B + 2, 8 * B), (B, 8 * (B - lf) - 3)) + (((2 * B, 8 * B + 8),) if tier == 'thorough' else ()):
                yield dict(algo=algo, n=n, L=L)
            for n in (0, 2):
                yield dict(algo=algo, n=n, L=8 * n + 1)
                yield dict(algo=algo, n=n, L=8 * n + 8)

    def mk(self, shape, src):
        return (src.bytes('M', shape['n']),)

    def stubs(self, shape):
        from symx.harness import patched
        return patched(hash_patches(shape['algo']))

    def impl(self, shape, args):
        h = make(shape['algo'])
        if self.symbolic:
            stub_obj(h, shape['algo'])
        M, L = args[0], shape['L']
        d = h(M) if L is None else h(M, bitlen=L)
        return d

    def spec(self, shape, args):
        M, L, n = args[0], shape['L'], shape['n']
        if L is not None and L > 8 * n:
            raise MustRaise()
        leaves = UFLeaves if self.symbolic else StdLeaves
        d = mdsha.digest(shape['algo'], list(M), L, leaves)
        if not self.symbolic and (L is None or L == 8 * n):
            import hashlib
            try:
                hd = hashlib.new(shape['algo'], bytes(M)).digest()
            except Exception:
                hd = None
            assert hd is None or hd == bytes(d), 'reference model disagrees with hashlib'
        assert len(d) == DIGEST[shape['algo']]
        return _b(d)


class Leaf(Case):
    prop = 'C01'
    name = 'C01.leaf'
    kind = 'L'
    bounds = 'real Ch, Maj (32 and 64 bit), MD4 f,g and MD5 f,g,i on three fully symbolic words == the formulas of FIPS 180-4 / RFC 1320 / RFC 1321'

    def shapes(self, tier):
        for w in (32, 64):
            yield dict(fn='Ch', w=w)
            yield dict(fn='Maj', w=w)
            yield dict(fn='Parity', w=w)
        for fn in ('md4.0', 'md4.1', 'md4.2', 'md5.0', 'md5.1', 'md5.2', 'md5.3'):
            yield dict(fn=fn, w=32)

    def mk(self, shape, src):
        w = shape['w']
        return (src.int('x', w), src.int('y', w), src.int('z', w))

    def impl(self, shape, args):
        from crysp.bits import Bits
        w, fn = shape['w'], shape['fn']
        if fn in ('Ch', 'Maj', 'Parity'):
            import crysp.sha as sha
            f = getattr(sha, fn)
        else:
            import crysp.md as md
            a, i = fn.split('.')
            f = (md.MD4() if a == 'md4' else md.MD5()).ft[int(i)]
        r = f(*[Bits(v, w) for v in args])
        return [r.ival, r.size]

    def spec(self, shape, args):
        w, fn = shape['w'], shape['fn']
        x, y, z = args
        r = {'Ch': lambda: StdLeaves.ch(x, y, z, w), 'Maj': lambda: StdLeaves.maj(x, y, z, w), 'Parity': lambda: x ^ y ^ z,
             'md4.0': lambda: StdLeaves.md_f(x, y, z), 'md4.1': lambda: StdLeaves.md4_g(x, y, z), 'md4.2': lambda: x ^ y ^ z,
             'md5.0': lambda: StdLeaves.md_f(x, y, z), 'md5.1': lambda: StdLeaves.md5_g(x, y, z), 'md5.2': lambda: x ^ y ^ z,
             'md5.3': lambda: StdLeaves.md5_i(x, y, z)}[fn]()
        return [r, w]


class RevByte(Case):
    prop = 'C01'
    name = 'C01.reverse_byte'
    kind = 'L'
    bounds = 'reverse_byte(b) == bit reversal for every byte value (justifies the summary used in the skeleton runs)'

    def shapes(self, tier):
        yield dict()

    def mk(self, shape, src):
        return (src.int('b', 8),)

    def impl(self, shape, args):
        from crysp.bits import reverse_byte
        return reverse_byte(args[0])

    def spec(self, shape, args):
        b = args[0]
        r = 0
        for i in range(8):
            r = r | (((b >> i) & 1) << (7 - i))
        return r


class LenField(Case):
    prop = 'C01'
    name = 'C01.lenfield'
    kind = 'I'
    bounds = ('MDpadding/SHApadding.lastblock started from a constructed state with bitcnt = k*blocksize for a SYMBOLIC k (any value '
              'below 2^(2w-10)): the emitted tail must be M||1||0*||(bitcnt+8|M|) as a 2-word little/big-endian field; tails of 0,1,B-len-1,B-len,B-1 bytes')

    def shapes(self, tier):
        for pad, w in (('MD', 32), ('SHA', 32), ('SHA', 64)):
            B = 16 * w // 8
            lf = 2 * w // 8
            for n in (0, 1, B - lf - 1, B - lf, B - 1):
                yield dict(pad=pad, w=w, n=n)

    def mk(self, shape, src):
        w = shape['w']
        return (src.int('k', 2 * w - 10), src.bytes('m', shape['n']))

    def stubs(self, shape):
        from symx.harness import patched
        from symx.stubs import reverse_byte_patches
        return patched(reverse_byte_patches())

    def impl(self, shape, args):
        import crysp.padding as P
        w = shape['w']
        p = (P.MDpadding if shape['pad'] == 'MD' else P.SHApadding)(16 * w, w)
        p.bitcnt = args[0] * (16 * w)
        out = p.lastblock(args[1])
        return dict(out=out, bitcnt=p.bitcnt, padflag=p.padflag)

    def spec(self, shape, args):
        w, n = shape['w'], shape['n']
        k, m = args
        total = k * 16 * w + 8 * n
        B, lf = 16 * w // 8, 2 * w // 8
        out = list(m) + [0x80]
        while (len(out) + lf) % B:
            out.append(0)
        lb = [(total >> (8 * i)) & 0xff for i in range(lf)]
        if shape['pad'] == 'SHA':
            lb.reverse()
        return dict(out=_b(out + lb), bitcnt=total, padflag=True)


for c in (Hash, Leaf, RevByte, LenField):
    register(c())
