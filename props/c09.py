"""C09 - padding: exact message||pad in full blocks, true bit counts, unpad inverts pad.
Scheme, block size, message length and bit length are enumerated; all message bytes are solver variables."""
from props.common import Case, register, MustRaise, NoClaim
from refs import padding as R

BITGRAN = ('Nullpadding', 'bitpadding', 'MDpadding', 'SHApadding', 'Blakepadding')


def _b(xs):
    if all(isinstance(v, int) for v in xs):
        return bytes(xs)
    from symx.core import SymBytes
    return SymBytes(xs)


def make(shape):
    import crysp.padding as P
    s = shape['scheme']
    if s in ('MDpadding', 'SHApadding'):
        return getattr(P, s)(shape['B'], shape['w'])
    if s == 'Blakepadding':
        return P.Blakepadding(shape['hsize'])
    return getattr(P, s)(shape['B'])


def configs(tier):
    out = []
    Bs = (8, 16, 64, 128) if tier == 'quick' else (8, 16, 24, 32, 64, 128, 256)
    for s in ('nopadding', 'Nullpadding', 'bitpadding', 'pkcs7', 'X923'):
        for B in Bs:
            out.append(dict(scheme=s, B=B))
    for s in ('MDpadding', 'SHApadding'):
        out.append(dict(scheme=s, B=512, w=32))
        out.append(dict(scheme=s, B=1024, w=64))
    for h in (224, 256, 384, 512):
        out.append(dict(scheme='Blakepadding', hsize=h, B=512 if h <= 256 else 1024, w=32 if h <= 256 else 64))
    return out


def lengths(cfg, tier):
    Bb = cfg['B'] // 8
    if cfg['B'] <= 128 and (tier == 'thorough' or Bb <= 8):
        return list(range(0, 3 * Bb + 1))
    if cfg['B'] <= 128:
        return sorted(set([0, 1, Bb - 1, Bb, Bb + 1, 2 * Bb - 1, 2 * Bb, 2 * Bb + 1, 3 * Bb]))
    lf = 2 * cfg.get('w', 32) // 8
    return sorted(set([0, 1, Bb - lf - 2, Bb - lf - 1, Bb - lf, Bb - lf + 1, Bb - 1, Bb, Bb + 1, 2 * Bb - lf - 1, 2 * Bb - lf, 2 * Bb, 2 * Bb + 1]))


class Pad(Case):
    prop = 'C09'
    name = 'C09.pad'
    timeout_s = 300
    bounds = ('iterblocks(M[,bitlen]) for nopadding, Nullpadding, bitpadding, pkcs7, X923 with B in {8,16,64,128} bits (quick; +24,32,256 thorough), '
              'MDpadding/SHApadding (512/32, 1024/64), Blakepadding(224,256,384,512); |M| every length 0..3 blocks for B<=64 (boundary set for larger B), '
              'bit lengths with every L mod 8 in 1..7 at the last byte for the bit-granular schemes, surplus trailing bytes; observed after every yield: '
              'block, bitcnt, padcnt, padflag; then a second call must raise; bitlen > 8|M| must raise')
    outside = 'block sizes other than those enumerated; messages longer than 3 blocks'

    def shapes(self, tier):
        for cfg in configs(tier):
            for n in lengths(cfg, tier):
                yield dict(cfg, n=n, L=None)
                if cfg['scheme'] in BITGRAN and n > 0:
                    rs = range(1, 8) if (cfg['B'] <= 16 or tier == 'thorough') else (1, 7)
                    for r in rs:
                        yield dict(cfg, n=n, L=8 * (n - 1) + r)
            if cfg['scheme'] in BITGRAN:
                Bb = cfg['B'] // 8
                yield dict(cfg, n=2 * Bb + 1, L=cfg['B'])           # surplus bytes, cut at a block boundary
                yield dict(cfg, n=Bb + 2, L=8 * Bb - 3)
            yield dict(cfg, n=1, L=9)
            yield dict(cfg, n=0, L=8)

    def mk(self, shape, src):
        return (src.bytes('M', shape['n']),)

    def stubs(self, shape):
        from symx.harness import patched
        from symx.stubs import reverse_byte_patches
        return patched(reverse_byte_patches())

    def impl(self, shape, args):
        p = make(shape)
        M, L = args[0], shape['L']
        it = p.iterblocks(M) if L is None else p.iterblocks(M, bitlen=L)
        out = []
        for blk in it:
            out.append(dict(b=blk, bitcnt=p.bitcnt))
        res = dict(blocks=out, padcnt=p.padcnt if shape['scheme'] in ('Nullpadding', 'bitpadding', 'pkcs7', 'X923') else None, flag=p.padflag)
        try:
            list(p.iterblocks(b'\x00' * (shape['B'] // 8)))
            res['again'] = 'accepted'
        except Exception as e:
            res['again'] = 'raised'
        return res

    def spec(self, shape, args):
        M, n, L, s, B = list(args[0]), shape['n'], shape['L'], shape['scheme'], shape['B']
        Bb = B // 8
        if L is not None and L > 8 * n:
            raise MustRaise()
        if L is not None and s not in BITGRAN:
            raise NoClaim()
        LL = 8 * n if L is None else L
        padded, padcnt = R.pad(s, B, M if L is None else M, LL, shape.get('w', 32), shape.get('hsize', 256))
        if s == 'nopadding':
            blks = R.blocks(padded, Bb) or [[]]
        else:
            blks = R.blocks(padded, Bb)
        out = []
        for i, b in enumerate(blks):
            out.append(dict(b=_b(b), bitcnt=R.bitcnt_after(i, LL, B)))
        res = dict(blocks=out, padcnt=padcnt if s in ('Nullpadding', 'bitpadding', 'pkcs7', 'X923') else None, flag=True, again='raised')
        return res


class Continue(Case):
    prop = 'C09'
    name = 'C09.continue'
    timeout_s = 300
    bounds = ('histories: 1..3 iterblocks(piece, padding=False) calls (pieces of 0, 1 or 2 whole blocks) followed by a final padded call with a tail of '
              '0, 1, B-1 or B bytes, on one object; every yielded block and the counter after every yield must equal the one-shot run on the concatenation; '
              'an unpadded piece that is not a whole number of blocks must raise; schemes: bitpadding, pkcs7 (B=64), MDpadding, SHApadding (512/32), Blakepadding(256), and Nullpadding(16)/nopadding(64) on 20 histories '
              '(quick); thorough adds every history for Nullpadding, X923, nopadding, SHApadding(1024/64), Blakepadding(512)')

    def shapes(self, tier):
        cfgs = [dict(scheme='bitpadding', B=64), dict(scheme='pkcs7', B=64), dict(scheme='MDpadding', B=512, w=32),
                dict(scheme='SHApadding', B=512, w=32), dict(scheme='Blakepadding', hsize=256, B=512, w=32)]
        if tier == 'thorough':
            cfgs += [dict(scheme='Nullpadding', B=16), dict(scheme='X923', B=64), dict(scheme='SHApadding', B=1024, w=64),
                     dict(scheme='Blakepadding', hsize=512, B=1024, w=64), dict(scheme='nopadding', B=64)]
        import itertools
        for cfg in cfgs:
            Bb = cfg['B'] // 8
            tails = (0, 1, Bb - 1, Bb)
            for k in (1, 2, 3):
                for pieces in itertools.product((0, 1, 2), repeat=k):
                    if k == 3 and (tier == 'quick' and pieces not in ((1, 0, 1), (1, 1, 1), (0, 1, 2))):
                        continue
                    for t in tails:
                        if tier == 'quick' and k >= 2 and t not in (1, Bb):
                            continue
                        yield dict(cfg, pieces=list(pieces), tail=t)
            yield dict(cfg, pieces=[1], tail=0, bad=1)
        if tier == 'quick':
            # the never-padding schemes finished by an empty / whole-block final call (no extra block may appear)
            for cfg in (dict(scheme='Nullpadding', B=16), dict(scheme='nopadding', B=64)):
                for pieces in ((1,), (2,), (0, 1), (1, 0), (0, 0)):
                    for t in (0, cfg['B'] // 8):
                        yield dict(cfg, pieces=list(pieces), tail=t)

    def mk(self, shape, src):
        Bb = shape['B'] // 8
        n = sum(shape['pieces']) * Bb + shape['tail'] + shape.get('bad', 0)
        return (src.bytes('M', n),)

    def stubs(self, shape):
        from symx.harness import patched
        from symx.stubs import reverse_byte_patches
        return patched(reverse_byte_patches())

    def impl(self, shape, args):
        p = make(shape)
        M = args[0]
        Bb = shape['B'] // 8
        out = []
        pos = 0
        if shape.get('bad'):
            list(p.iterblocks(M[:Bb + 1], padding=False))
            return 'accepted'
        for k in shape['pieces']:
            piece = M[pos:pos + k * Bb]
            pos += k * Bb
            for blk in p.iterblocks(piece, padding=False):
                out.append(dict(b=blk, bitcnt=p.bitcnt))
            out.append(dict(after=p.bitcnt, flag=p.padflag))
        for blk in p.iterblocks(M[pos:]):
            out.append(dict(b=blk, bitcnt=p.bitcnt))
        return dict(out=out, flag=p.padflag)

    def spec(self, shape, args):
        if shape.get('bad'):
            raise MustRaise()
        M, s, B = list(args[0]), shape['scheme'], shape['B']
        Bb = B // 8
        n = len(M)
        padded, _ = R.pad(s, B, M, 8 * n, shape.get('w', 32), shape.get('hsize', 256))
        blks = R.blocks(padded, Bb)
        out = []
        i = 0
        fed = 0
        for k in shape['pieces']:
            for j in range(k):
                out.append(dict(b=_b(blks[i]), bitcnt=(i + 1) * B))
                i += 1
            fed += k
            out.append(dict(after=fed * B, flag=False))
        # the final call: remaining blocks; counters continue from the bits already fed
        if s == 'nopadding' and i == len(blks) and fed == 0:
            out.append(dict(b=b'', bitcnt=0))        # the empty message: one empty block is tolerated (as in the one-shot case); after data nothing more may be emitted
        while i < len(blks):
            out.append(dict(b=_b(blks[i]), bitcnt=R.bitcnt_after(i, 8 * n, B) if (i * B < 8 * n or i == fed == 0) else 0))
            i += 1
        return dict(out=out, flag=True)


class Remove(Case):
    prop = 'C09'
    name = 'C09.remove'
    timeout_s = 600
    max_paths = 40000
    bounds = ('remove(concat(iterblocks(M,L))) == M[0:L] (last partial byte zero-filled): nopadding, pkcs7, X923 with B in {8,16,64,128}, |M| 0..2 blocks + 1; '
              'Nullpadding, bitpadding with B in {8,16} (the bit-granular removers format the payload as text, which needs a concrete value: solver-driven enumeration, '
              'at most 8 symbolic bits in the last block); MDpadding/SHApadding/Blakepadding with |M| in {0,1,2, spill boundary, B, B+1} bytes and four bit lengths')
    outside = 'remove() of the bit-granular schemes for blocks wider than 16 bits'

    def shapes(self, tier):
        for s in ('nopadding', 'pkcs7', 'X923'):
            for B in (8, 16, 64, 128):
                Bb = B // 8
                for n in range(0, 2 * Bb + 2):
                    if B == 128 and n not in (0, 1, 15, 16, 17, 32):
                        continue
                    yield dict(scheme=s, B=B, n=n, L=None)
        for s in ('Nullpadding', 'bitpadding'):
            for B in (8, 16):
                Bb = B // 8
                for n in range(0, 2 * Bb + 1):
                    if s == 'Nullpadding' or B == 8 or (8 * n) % 16 <= 8:
                        yield dict(scheme=s, B=B, n=n, L=None)
                    for r in (1, 4, 7):
                        if n > 0 and (s == 'Nullpadding' or B == 8 or (8 * (n - 1) + r) % 16 <= 8):
                            yield dict(scheme=s, B=B, n=n, L=8 * (n - 1) + r)
        for s, w in (('MDpadding', 32), ('SHApadding', 32), ('SHApadding', 64)):
            Bb = 2 * w
            for n in (0, 1, 2, Bb - w // 4 - 1, Bb - w // 4, Bb, Bb + 1):
                yield dict(scheme=s, B=16 * w, w=w, n=n, L=None)
            for n, L in ((1, 3), (2, 9), (Bb, 8 * Bb - 1), (Bb - w // 4, 8 * (Bb - w // 4) - 7)):
                yield dict(scheme=s, B=16 * w, w=w, n=n, L=L)
        for h in (224, 256, 384, 512):
            Bb = 64 if h <= 256 else 128
            for n in (0, 1, 2, Bb - (8 if h <= 256 else 16) - 1, Bb - (8 if h <= 256 else 16), Bb, Bb + 1):
                yield dict(scheme='Blakepadding', hsize=h, B=512 if h <= 256 else 1024, w=32 if h <= 256 else 64, n=n, L=None)
            for n, L in ((1, 5), (Bb, 8 * Bb - 2)):
                yield dict(scheme='Blakepadding', hsize=h, B=512 if h <= 256 else 1024, w=32 if h <= 256 else 64, n=n, L=L)

    def mk(self, shape, src):
        return (src.bytes('M', shape['n']),)

    def stubs(self, shape):
        from symx.harness import patched
        from symx.stubs import reverse_byte_patches
        return patched(reverse_byte_patches())

    def impl(self, shape, args):
        p = make(shape)
        M, L = args[0], shape['L']
        blks = list(p.iterblocks(M) if L is None else p.iterblocks(M, bitlen=L))
        c = blks[0]
        for b in blks[1:]:
            c = c + b
        return p.remove(c)

    def spec(self, shape, args):
        M, n, L = list(args[0]), shape['n'], shape['L']
        if shape['scheme'] == 'nopadding' and False:
            raise NoClaim()
        LL = 8 * n if L is None else L
        return _b(R.msg_bytes(M, LL))


class Unpad(Case):
    prop = 'C09'
    name = 'C09.unpad'
    kind = 'P'
    timeout_s = 900
    max_paths = 40000
    bounds = ('pkcs7/X923.remove(X) on a FULLY symbolic X of one block (B in {8,16,64} bits) and of two blocks (B in {8,16}): on every feasible path the call '
              'returns X without its pad iff X ends in a valid padding for that block length, and raises PaddingError otherwise; the union of paths covers every X')

    def shapes(self, tier):
        for s in ('pkcs7', 'X923'):
            for B, nb in ((8, 1), (16, 1), (64, 1), (8, 2), (16, 2)) + (((32, 1), (32, 2), (64, 2), (128, 1)) if tier == 'thorough' else ()):
                yield dict(scheme=s, B=B, n=nb * B // 8)

    def mk(self, shape, src):
        return (src.bytes('X', shape['n']),)

    def impl(self, shape, args):
        p = make(shape)
        return p.remove(args[0])

    def spec(self, shape, args):
        X = args[0]
        Bb = shape['B'] // 8
        n = len(X)
        q = X[n - 1]
        # decide validity; under the engine each comparison refines the path condition
        valid = None
        for k in range(1, min(Bb, n) + 1):
            if q == k:
                body = X[n - k:n] if shape['scheme'] == 'pkcs7' else X[n - k:n - 1]
                want = k if shape['scheme'] == 'pkcs7' else 0
                ok = True
                for b in body:
                    if not (b == want):
                        ok = False
                        break
                valid = k if ok else 0
                break
        if not valid:
            raise MustRaise('PaddingError')
        return X[:n - valid]


for c in (Pad, Continue, Remove, Unpad):
    register(c())


# ---- lemmas for the stubs this check relies on (see props.common.Borrowed) ----
from props.common import Borrowed, REGISTRY
from props import c01 as _c01
register(Borrowed(REGISTRY['C01.reverse_byte'], 'C09', 'reverse_byte'))
