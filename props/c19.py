"""C19 (partial) - TLSH / Nilsimsa: well-formed reproducible digests, distances behave as distances.
Decided by symbolic execution + z3: TLSH digest re-loading (from_hash/digest round trip and header fields) for ARBITRARY symbolic
digests, TLSH distance (non-negative, zero on identical, symmetric, object/bytes/mixed arguments agree) on arbitrary symbolic
digests, the minimum-length gate (None, not an exception), Nilsimsa digest == the 0.2.4 formula for inputs up to 6 symbolic bytes,
Nilsimsa distance == Hamming distance.  NOT decided (see DESIGN.md): TLSH digest == reference for every input - the code sorts a
128..256 entry histogram indexed by nested table look-ups of the data and quantises through floats and logarithms."""
from props.common import Case, register, MustRaise, NoClaim, getitem

CFG = [(48, 1), (48, 3), (128, 1), (128, 3), (256, 1), (256, 3)]


def _b(xs):
    if all(isinstance(v, int) for v in xs):
        return bytes(xs)
    from symx.core import SymBytes
    return SymBytes(xs)


def dlen(buckets, chk):
    return chk + 2 + buckets // 4


def hw_patch():
    from props.c18 import hw_patches
    return hw_patches()


class TlshLoad(Case):
    prop = 'C19'
    name = 'C19.tlsh_load'
    bounds = ('TLSH(buckets, chklen=c).from_hash(h).digest().lsh_code == h and the header fields (checksum, Lvalue, Q ratios, code) are the nibble-swapped / reversed bytes of h, for an ARBITRARY '
              'symbolic digest h of each of the 6 (buckets, checksum length) configurations; window sizes 4..8 do not enter the digest layout')

    def shapes(self, tier):
        for b, c in CFG:
            yield dict(buckets=b, chk=c)

    def mk(self, shape, src):
        return (src.bytes('h', dlen(shape['buckets'], shape['chk'])),)

    def impl(self, shape, args):
        from crysp.tlsh import TLSH
        t = TLSH(shape['buckets'], chklen=shape['chk']).from_hash(args[0])
        code = t.digest().lsh_code
        return dict(code=code, valid=t.lsh_code_valid, ck=list(t.checksum), L=t.Lvalue, q1=t.q1_ratio, q2=t.q2_ratio, body=list(t.tmp_code), n=len(code))

    def spec(self, shape, args):
        h = list(args[0])
        c = shape['chk']
        sw = lambda x: ((x & 0xf) << 4) | (x >> 4)
        return dict(code=args[0] if isinstance(args[0], bytes) else _b(h), valid=True, ck=[sw(x) for x in h[:c]], L=sw(h[c]), q1=h[c + 1] >> 4, q2=h[c + 1] & 0xf,
                    body=h[c + 2:][::-1], n=len(h))


def model_distance(x, y, c, lvalue=True):
    "TLSH distance between two raw digests (paper / reference implementation 3.x scoring)"
    sw = lambda v: ((v & 0xf) << 4) | (v >> 4)

    def sel(cond, a, b):
        if isinstance(cond, bool):
            return a if cond else b
        from symx.core import ite
        return ite(cond, a, b)

    def absd(a, b):
        return abs(a - b)

    def mn(a, b):
        if isinstance(a, int) and isinstance(b, int):
            return min(a, b)
        from symx.core import sx_min
        return sx_min(a, b)

    def diffmod(a, b, n):
        d0 = absd(a % n, b % n)
        d1 = n - d0
        return mn(d0, d1)
    diff = 0
    ck = False
    for i in range(c):
        ck = ck | (sw(y[i]) != sw(x[i]))
    diff = sel(ck, diff + 1, diff)
    if lvalue:
        d = diffmod(sw(y[c]), sw(x[c]), 256)
        diff = diff + sel(d <= 1, d, d * 12)
    for f in (lambda v: v >> 4, lambda v: v & 0xf):
        d = diffmod(f(y[c + 1]), f(x[c + 1]), 16)
        diff = diff + sel(d <= 1, d, (d - 1) * 12)
    # body: the library walks its (reversed) code arrays; the score is a sum over all 2-bit buckets
    for a, b in zip(y[c + 2:][::-1], x[c + 2:][::-1]):
        for t in range(4):
            d = absd((a >> (2 * t)) & 3, (b >> (2 * t)) & 3)
            diff = diff + d
            diff = sel(d == 3, diff + d, diff)
    return diff


HASHED_INPUT = bytes((i * i * 7 + i * 13 + 5) & 0xff for i in range(300))


class TlshDistance(Case):
    prop = 'C19'
    name = 'C19.tlsh_distance'
    timeout_s = 900
    bounds = ('distance(x,y) for ARBITRARY symbolic digests x,y of the 48-bucket configurations (checksum length 1 and 3) and the 128-bucket/1-byte one: equals the scoring model, is >= 0, '
              'd(x,x)==0, d(x,y)==d(y,x), and object/bytes/mixed arguments agree - also for a digest object produced by really hashing a (concrete) input against its own bytes, a re-loaded copy and an arbitrary symbolic digest; lvalue flag both ways')
    outside = '256-bucket digests and 128-bucket/3-byte for the distance (same code path, longer body loop)'

    def shapes(self, tier):
        for b, c in ((48, 1), (48, 3), (128, 1)) + (((128, 3), (256, 1)) if tier == 'thorough' else ()):
            for what in ('model', 'self', 'sym', 'forms', 'hashed'):
                for lv in (True, False):
                    if what in ('self', 'forms', 'hashed') and not lv:
                        continue
                    yield dict(buckets=b, chk=c, what=what, lv=lv)

    def mk(self, shape, src):
        n = dlen(shape['buckets'], shape['chk'])
        return (src.bytes('x', n), src.bytes('y', n))

    def impl(self, shape, args):
        from crysp.tlsh import TLSH, distance
        x, y = args
        w, lv = shape['what'], shape['lv']
        if w == 'model':
            return distance(x, y, lv)
        if w == 'self':
            return distance(x, x)
        if w == 'sym':
            return [distance(x, y, lv), distance(y, x, lv)]
        if w == 'hashed':
            # a digest object produced by actually hashing (its fields are what update()/final() leave behind, e.g. bytearrays)
            H = TLSH(shape['buckets'], chklen=shape['chk'])
            H(HASHED_INPUT, True)
            code = H.lsh_code
            return [distance(H, code), distance(code, H), distance(H, TLSH(shape['buckets'], chklen=shape['chk']).from_hash(code)),
                    distance(H, y), distance(y, H)]
        ox = TLSH(shape['buckets'], chklen=shape['chk']).from_hash(x)
        oy = TLSH(shape['buckets'], chklen=shape['chk']).from_hash(y)
        return [distance(ox, oy), distance(ox, y), distance(x, oy), ox.distance_to(oy)]

    def spec(self, shape, args):
        x, y = list(args[0]), list(args[1])
        w, lv, c = shape['what'], shape['lv'], shape['chk']
        d = model_distance(x, y, c, lv)
        if w == 'model':
            return d
        if w == 'self':
            return 0
        if w == 'sym':
            return [d, d]
        if w == 'hashed':
            from crysp.tlsh import TLSH
            H = TLSH(shape['buckets'], chklen=c)
            H(HASHED_INPUT, True)
            code = list(H.lsh_code)
            return [0, 0, 0, model_distance(code, y, c, lv), model_distance(y, code, c, lv)]
        return [d, d, d, d]


class TlshGate(Case):
    prop = 'C19'
    name = 'C19.tlsh_gate'
    bounds = ('TLSH(cfg)(data, force) for data of 0..49 bytes (force True/False) and 50..255 bytes without force: the result is None (single path: the gate depends on the length only); '
              'every bucket count, window size 4..8 at two lengths, both checksum lengths; data symbolic')

    def shapes(self, tier):
        for b, c in CFG:
            for n in (0, 1, 4, 5, 49):
                for force in (False, True):
                    yield dict(buckets=b, chk=c, w=5, n=n, force=force)
            for n in (50, 255):
                yield dict(buckets=b, chk=c, w=5, n=n, force=False)
        for w in (4, 6, 7, 8):
            for n in (3, 49):
                yield dict(buckets=128, chk=1, w=w, n=n, force=True)

    def mk(self, shape, src):
        # the gate only looks at the length: a short symbolic prefix keeps the (data-dependent) histogram update cheap
        k = min(shape['n'], 1)
        return (src.bytes('d', k),)

    def impl(self, shape, args):
        from crysp.tlsh import TLSH
        data = args[0] + bytes((i * 37 + 11) & 0xff for i in range(shape['n'] - len(args[0])))
        r = TLSH(shape['buckets'], wndsize=shape['w'], chklen=shape['chk'])(data, shape['force'])
        return r

    def spec(self, shape, args):
        return None


TRIPLETS = {4: [(2, 1, 2, 3), (3, 1, 2, 4), (5, 1, 3, 4)]}
TRIPLETS[5] = TRIPLETS[4] + [(7, 1, 3, 5), (11, 1, 2, 5), (13, 1, 4, 5)]
TRIPLETS[6] = TRIPLETS[5] + [(17, 1, 2, 6), (19, 1, 3, 6), (23, 1, 4, 6), (29, 1, 5, 6)]
TRIPLETS[7] = TRIPLETS[6] + [(31, 1, 2, 7), (37, 1, 3, 7), (41, 1, 4, 7), (43, 1, 5, 7), (47, 1, 6, 7)]
TRIPLETS[8] = TRIPLETS[7] + [(53, 1, 2, 8), (59, 1, 3, 8), (61, 1, 4, 8), (67, 1, 5, 8), (71, 1, 6, 8), (73, 1, 7, 8)]


def tlsh_update_model(data, wsz, chklen):
    """TLSH paper section 3.1: for every window position the salted Pearson hash of each triplet (last byte with two earlier ones)
    increments a bucket; the checksum chains the Pearson hash of the two newest bytes"""
    from refs.stream import lookup, store
    import crysp.tlsh as T
    P = list(T.PEARSON_T)        # the table itself is pinned by C19.tlsh_pearson (a permutation with the published first/last rows)

    def pearson(salt, a, b, c):
        h = P[salt]              # T[0 ^ salt]
        for v in (a, b, c):
            h = lookup(P, h ^ v)
        return h
    data = list(data)
    bucket = [0] * 256
    chk = [0] * chklen
    for ew in range(wsz, len(data) + 1):
        d0, d1 = data[ew - 1], data[ew - 2]
        chk[0] = pearson(0, d0, d1, chk[0])
        for k in range(1, chklen):
            chk[k] = pearson(chk[k - 1], d0, d1, chk[k]) if isinstance(chk[k - 1], int) else _pearson_symsalt(P, chk[k - 1], d0, d1, chk[k])
        for salt, i, j, k in TRIPLETS[wsz]:
            bi = pearson(salt, data[ew - i], data[ew - j], data[ew - k])
            store(bucket, bi, lookup(bucket, bi) + 1)
    return bucket, chk


def _pearson_symsalt(P, salt, a, b, c):
    from refs.stream import lookup
    h = lookup(P, salt)
    for v in (a, b, c):
        h = lookup(P, h ^ v)
    return h


class TlshUpdate(Case):
    """the histogram / checksum stage of TLSH on symbolic data: every window size, both checksum lengths"""
    prop = 'C19'
    name = 'C19.tlsh_update'
    timeout_s = 900
    bounds = ('TLSH(buckets,w,c).update(data) for data of 0..w+2 (quick) / w+3 (thorough) SYMBOLIC bytes, every window size w in 4..8, checksum length 1 and 3: the 256-entry bucket histogram, the checksum '
              'bytes and data_len equal the paper\'s sliding-window/Pearson model (the triplet salts and positions are compared entry by entry)')
    outside = 'histograms of longer inputs (the number of symbolic table look-ups grows with 6..21 per position); update() called several times on one object (not demanded: the digest is defined one-shot)'

    def shapes(self, tier):
        extra = 2 if tier == 'quick' else 3
        for w in (4, 5, 6, 7, 8):
            for c in (1, 3):
                for n in sorted(set([0, w - 1] + list(range(w, w + extra + 1)))):
                    if tier == 'quick' and c == 3 and n not in (w - 1, w, w + 1):
                        continue
                    if w >= 7 and n > w + 1 and tier == 'quick':
                        continue
                    yield dict(w=w, chk=c, n=n, buckets=128 if w != 6 else 48)

    def mk(self, shape, src):
        return (src.bytes('d', shape['n']),)

    def impl(self, shape, args):
        from crysp.tlsh import TLSH
        t = TLSH(shape['buckets'], wndsize=shape['w'], chklen=shape['chk'])
        r = t.update(args[0])
        return dict(same=r is t, bucket=list(t.a_bucket), chk=list(t.checksum), n=t.data_len, valid=t.lsh_code_valid)

    def spec(self, shape, args):
        b, c = tlsh_update_model(list(args[0]), shape['w'], shape['chk'])
        return dict(same=True, bucket=b, chk=c, n=shape['n'], valid=False)


def tlsh_final_model(bucket, buckets, q, data_len):
    "code packing of the paper: 2 bits per bucket (0 below or at q1, 1 up to q2, 2 up to q3, 3 above), four buckets per byte from the low bits"
    from symx.core import ite
    q1, q2, q3 = q
    code = [0] * (buckets // 4)
    for bi in range(buckets):
        bv = bucket[bi]
        i, j = divmod(bi, 4)
        if isinstance(bv, int):
            v = 3 if bv > q3 else 2 if bv > q2 else 1 if bv > q1 else 0
        else:
            v = ite(bv > q3, 3, ite(bv > q2, 2, ite(bv > q1, 1, 0)))
        code[i] = code[i] + (v << (2 * j))
    return code


class TlshPack(Case):
    """the quantisation stage of TLSH.final on a histogram with SYMBOLIC entries (the quartile selection itself sorts and is not
    encoded: find_quartiles is replaced by the quartiles the shape states, see the claim)"""
    prop = 'C19'
    name = 'C19.tlsh_pack'
    timeout_s = 900
    bounds = ('TLSH.final() on an object whose histogram has 8 SYMBOLIC entries (16-bit counts, assumed non-zero so that the population gate is a single path) among concrete ones, with the quartiles fixed by the shape '
              '(find_quartiles stubbed to return them): tmp_code equals the 2-bit quantisation of every bucket against q1<q2<q3 (strictness of each comparison decided for all counts), the header ratios and '
              'Lvalue are those of the shape, digest() has the configuration length and lays out checksum/Lvalue/ratios/code as the reload case expects; 48, 128 and 256 buckets')
    outside = 'quartile selection by sorting (find_quartiles), the too-uniform gate on symbolic counts, l_capturing for symbolic lengths (floating point logarithm)'
    stub_note = 'find_quartiles is overridden on the instance under test to return the three quartiles given in the shape (in the symbolic run and in replays alike)'

    def shapes(self, tier):
        for b in (48, 128, 256):
            for q in ((2, 5, 9), (1, 2, 3)) if tier == 'quick' else ((2, 5, 9), (1, 2, 3), (1, 1, 1), (3, 3, 8), (7, 100, 1000)):
                for c in (1, 3):
                    yield dict(buckets=b, q=list(q), chk=c, dl=300 if q[0] != 1 else 5000)

    def mk(self, shape, src):
        return ([src.int('v%d' % i, 16, lo=1) for i in range(8)],)

    def _hist(self, shape, vs):
        b = shape['buckets']
        h = [((i * 7 + 3) % 13) + 1 for i in range(256)]
        for k, v in enumerate(vs):
            h[(k * (b // 8) + k) % b] = v
        return h

    def impl(self, shape, args):
        from crysp.tlsh import TLSH
        t = TLSH(shape['buckets'], chklen=shape['chk'])
        t.a_bucket = self._hist(shape, args[0])
        t.data_len = shape['dl']
        t.checksum = bytearray(range(0x21, 0x21 + shape['chk']))
        q = tuple(float(x) for x in shape['q'])
        t.find_quartiles = lambda: q          # instance-level override, in the symbolic run and in every replay alike
        r = t.final(b'', True)
        d = t.digest().lsh_code
        return dict(ok=r is t, code=list(t.tmp_code), L=t.Lvalue, q1=t.q1_ratio, q2=t.q2_ratio, valid=t.lsh_code_valid, n=len(d), d=d)

    def spec(self, shape, args):
        import math
        b, c = shape['buckets'], shape['chk']
        code = tlsh_final_model(self._hist(shape, args[0]), b, shape['q'], shape['dl'])
        l = shape['dl']
        L = int(math.floor(math.log(l, 1.5))) if l <= 656 else int(math.floor(math.log(l, 1.3) - 8.72777)) if l <= 3199 else int(math.floor(math.log(l, 1.1) - 62.5472))
        q1, q2, q3 = shape['q']
        r1, r2 = (q1 * 100 // q3) % 16, (q2 * 100 // q3) % 16
        swp = lambda x: ((x & 15) << 4) | (x >> 4)
        d = [swp(x) for x in range(0x21, 0x21 + c)] + [swp(L & 255), (r1 << 4) | r2] + code[::-1]
        return dict(ok=True, code=code, L=L & 255, q1=r1, q2=r2, valid=True, n=dlen(b, c), d=_b(d))


def nilsimsa_model(data, target=53):
    "Nilsimsa 0.2.4: tran from the target generator, 8 trigram products per sliding window position, threshold at the mean"
    from refs.stream import lookup, store
    T = [0] * 256
    j = 0
    for i in range(256):
        j = (j * target + 1) & 255
        j += j
        if j > 255:
            j -= 255
        k = 0
        while k < i:
            if T[k] == j:
                j = (j + 1) & 255
                k = 0
            k += 1
        T[i] = j

    def tran3(a, b, c, n):
        return ((lookup(T, (a + n) & 255) ^ (lookup(T, b) * (n + n + 1))) + lookup(T, c ^ T[n])) & 255
    acc = [0] * 256
    data = list(data)

    def bump(i):
        store(acc, i, lookup(acc, i) + 1)
    for p, b in enumerate(data):
        w0 = data[p - 1] if p >= 1 else None
        w1 = data[p - 2] if p >= 2 else None
        w2 = data[p - 3] if p >= 3 else None
        w3 = data[p - 4] if p >= 4 else None
        if w1 is not None:
            bump(tran3(b, w0, w1, 0))
        if w2 is not None:
            bump(tran3(b, w0, w2, 1)); bump(tran3(b, w1, w2, 2))
        if w3 is not None:
            bump(tran3(b, w0, w3, 3)); bump(tran3(b, w1, w3, 4)); bump(tran3(b, w2, w3, 5))
            bump(tran3(w3, w0, b, 6)); bump(tran3(w3, w2, b, 7))
    n = len(data)
    total = 0 if n < 3 else (1 if n == 3 else (4 if n == 4 else 8 * n - 28))
    thres = total // 256
    code = [0] * 32
    for i in range(256):
        bit = acc[i] > thres
        if isinstance(bit, bool):
            code[i >> 3] += (1 << (i & 7)) if bit else 0
        else:
            from symx.core import ite
            code[i >> 3] = code[i >> 3] + ite(bit, 1 << (i & 7), 0)
    return code[::-1]


class NilsimsaDigest(Case):
    prop = 'C19'
    name = 'C19.nilsimsa'
    timeout_s = 900
    bounds = 'Nilsimsa(target)(data) for data of 0..6 symbolic bytes and targets 53 (default), 0, 1, 255 == the 0.2.4 formula, 32 bytes; distance(h1,h2) == Hamming distance, symmetric, zero iff equal (32 symbolic bytes each)'

    def shapes(self, tier):
        for t in (53, 0, 1, 255):
            for n in range(0, 7 if t == 53 else 5):
                yield dict(what='digest', target=t, n=n)
        for w in ('ham', 'sym', 'zero'):
            yield dict(what=w)

    def mk(self, shape, src):
        if shape['what'] == 'digest':
            return (src.bytes('d', shape['n']),)
        return (src.bytes('x', 32), src.bytes('y', 32))

    def stubs(self, shape):
        from symx.harness import patched
        from symx.stubs import reverse_byte_patches
        return patched(reverse_byte_patches() + hw_patch())

    def impl(self, shape, args):
        import crysp.nilsimsa as nl
        w = shape['what']
        if w == 'digest':
            r = nl.Nilsimsa(shape['target'])(args[0])
            return dict(d=r, n=len(r))
        x, y = args
        if w == 'ham':
            return nl.distance(x, y)
        if w == 'sym':
            return [nl.distance(x, y), nl.distance(y, x)]
        d = nl.distance(x, y)
        return [nl.distance(x, x), bool(d == 0) == bool(self._eq(x, y))]

    def _eq(self, x, y):
        r = True
        for a, b in zip(x, y):
            r = r & (a == b)
        return r

    def spec(self, shape, args):
        w = shape['what']
        if w == 'digest':
            return dict(d=_b(nilsimsa_model(list(args[0]), shape['target'])), n=32)
        x, y = list(args[0]), list(args[1])
        ham = 0
        for a, b in zip(x, y):
            v = a ^ b
            for t in range(8):
                ham = ham + ((v >> t) & 1)
        if w == 'ham':
            return ham
        if w == 'sym':
            return [ham, ham]
        return [0, True]


for c in (TlshLoad, TlshDistance, TlshGate, TlshUpdate, TlshPack, NilsimsaDigest):
    register(c())


# ---- lemmas for the stubs this check relies on (see props.common.Borrowed) ----
from props.common import Borrowed, REGISTRY
from props import c01 as _c01
register(Borrowed(REGISTRY['C01.reverse_byte'], 'C19', 'reverse_byte'))
from props import c08 as _c08
register(Borrowed(REGISTRY['C08.unary'], 'C19', 'hw', keep=lambda sh: sh.get('op') == 'hw'))
