"""Reference Salsa20 (Bernstein, "Salsa20 specification"), ChaCha (64-bit nonce / 64-bit block counter) and RC4 over plain
integer operators (run on ints and symbolic values).  RC4's permutation updates go through lookup/store so that a symbolic
index becomes an if-then-else over the table."""
M32 = (1 << 32) - 1


def rotl(x, n):
    return ((x << n) | (x >> (32 - n))) & M32


def lookup(tab, i):
    if isinstance(i, int):
        return tab[i]
    from symx.core import sx_getitem
    return sx_getitem(tab, i)


def store(tab, i, v):
    if isinstance(i, int):
        tab[i] = v
    else:
        from symx.core import sx_setitem
        sx_setitem(tab, i, v)


def le_words(bs):
    return [bs[4 * i] | (bs[4 * i + 1] << 8) | (bs[4 * i + 2] << 16) | (bs[4 * i + 3] << 24) for i in range(len(bs) // 4)]


def le_bytes(ws):
    return [(w >> (8 * j)) & 0xff for w in ws for j in range(4)]


# ---- Salsa20 ---------------------------------------------------------------------------------------------------
def salsa_qr(y0, y1, y2, y3):
    z1 = y1 ^ rotl((y0 + y3) & M32, 7)
    z2 = y2 ^ rotl((z1 + y0) & M32, 9)
    z3 = y3 ^ rotl((z2 + z1) & M32, 13)
    z0 = y0 ^ rotl((z3 + z2) & M32, 18)
    return z0, z1, z2, z3


def salsa_rowround(y):
    z = [0] * 16
    z[0], z[1], z[2], z[3] = salsa_qr(y[0], y[1], y[2], y[3])
    z[5], z[6], z[7], z[4] = salsa_qr(y[5], y[6], y[7], y[4])
    z[10], z[11], z[8], z[9] = salsa_qr(y[10], y[11], y[8], y[9])
    z[15], z[12], z[13], z[14] = salsa_qr(y[15], y[12], y[13], y[14])
    return z


def salsa_columnround(x):
    y = [0] * 16
    y[0], y[4], y[8], y[12] = salsa_qr(x[0], x[4], x[8], x[12])
    y[5], y[9], y[13], y[1] = salsa_qr(x[5], x[9], x[13], x[1])
    y[10], y[14], y[2], y[6] = salsa_qr(x[10], x[14], x[2], x[6])
    y[15], y[3], y[7], y[11] = salsa_qr(x[15], x[3], x[7], x[11])
    return y


def salsa_core(x, rounds=20):
    z = list(x)
    for _ in range(rounds // 2):
        z = salsa_rowround(salsa_columnround(z))
    return [(a + b) & M32 for a, b in zip(x, z)]


SIGMA = le_words(list(b'expand 32-byte k'))
TAU = le_words(list(b'expand 16-byte k'))


def salsa_block(key, nonce, counter, rounds=20):
    "key: 16 or 32 byte values; nonce: 8 byte values; counter: 64-bit block index -> 64 keystream bytes"
    k = le_words(list(key))
    n = le_words(list(nonce))
    c = [counter & M32, (counter >> 32) & M32]
    if len(k) == 8:
        x = [SIGMA[0]] + k[0:4] + [SIGMA[1]] + n + c + [SIGMA[2]] + k[4:8] + [SIGMA[3]]
    else:
        x = [TAU[0]] + k[0:4] + [TAU[1]] + n + c + [TAU[2]] + k[0:4] + [TAU[3]]
    return le_bytes(salsa_core(x, rounds))


# ---- ChaCha ----------------------------------------------------------------------------------------------------
def chacha_qr(a, b, c, d):
    a = (a + b) & M32; d = rotl(d ^ a, 16)
    c = (c + d) & M32; b = rotl(b ^ c, 12)
    a = (a + b) & M32; d = rotl(d ^ a, 8)
    c = (c + d) & M32; b = rotl(b ^ c, 7)
    return a, b, c, d


def chacha_core(x, rounds):
    z = list(x)
    for _ in range(rounds // 2):
        for (a, b, c, d) in ((0, 4, 8, 12), (1, 5, 9, 13), (2, 6, 10, 14), (3, 7, 11, 15),
                             (0, 5, 10, 15), (1, 6, 11, 12), (2, 7, 8, 13), (3, 4, 9, 14)):
            z[a], z[b], z[c], z[d] = chacha_qr(z[a], z[b], z[c], z[d])
    return [(p + q) & M32 for p, q in zip(x, z)]


def chacha_block(key, nonce, counter, rounds):
    k = le_words(list(key))
    n = le_words(list(nonce))
    if len(k) == 8:
        x = SIGMA + k + [counter & M32, (counter >> 32) & M32] + n
    else:
        x = TAU + k + k + [counter & M32, (counter >> 32) & M32] + n
    return le_bytes(chacha_core(x, rounds))


def stream_xor(block_fn, M, first=0):
    out = []
    M = list(M)
    for i in range((len(M) + 63) // 64):
        ks = block_fn(first + i)
        out += [a ^ b for a, b in zip(M[64 * i:64 * i + 64], ks)]
    return out


# ---- RC4 -------------------------------------------------------------------------------------------------------
def rc4_ksa(key):
    S = list(range(256))
    j = 0
    for i in range(256):
        j = (j + lookup(S, i) + key[i % len(key)]) & 0xff
        a, b = lookup(S, i), lookup(S, j)
        store(S, i, b)
        store(S, j, a)
    return S


def rc4_prga(S, i, j, n):
    "n keystream bytes from state (S,i,j); returns (bytes, S, i, j); S is updated in place"
    out = []
    for _ in range(n):
        i = (i + 1) & 0xff
        j = (j + lookup(S, i)) & 0xff
        a, b = lookup(S, i), lookup(S, j)
        store(S, i, b)
        store(S, j, a)
        out.append(lookup(S, (lookup(S, i) + lookup(S, j)) & 0xff))
    return out, S, i, j


def selftest():
    # Salsa20 specification examples
    assert salsa_qr(1, 0, 0, 0) == (0x08008145, 0x00000080, 0x00010200, 0x20500000)
    assert salsa_qr(0xe7e8c006, 0xc4f9417d, 0x6479b4b2, 0x68c67137) == (0xe876d72b, 0x9361dfd5, 0xf1460244, 0x948541a3)
    L = [211, 159, 13, 115, 76, 55, 82, 183, 3, 117, 222, 37, 191, 187, 234, 136, 49, 237, 179, 48, 1, 106, 178, 219, 175, 199, 166, 48, 86, 16, 179, 207,
         31, 240, 32, 63, 15, 83, 93, 161, 116, 147, 48, 113, 238, 55, 204, 36, 79, 201, 235, 79, 3, 81, 156, 47, 203, 26, 244, 243, 88, 118, 104, 54]
    r = le_bytes(salsa_core(le_words(L)))
    assert r[:8] == [109, 42, 178, 168, 156, 240, 248, 238] and r[-3:] == [19, 48, 202]
    k0, k1, n = list(range(1, 17)), list(range(201, 217)), list(range(101, 117))
    # expansion examples of the specification (section 9): counter = bytes 109..116 of n
    cnt = sum(b << (8 * i) for i, b in enumerate(n[8:]))
    r = salsa_block(k0 + k1, n[:8], cnt)
    assert r[:5] == [69, 37, 68, 39, 41] and r[-5:] == [236, 234, 103, 246, 74]
    r = salsa_block(k0, n[:8], cnt)
    assert r[:5] == [39, 173, 46, 248, 30] and r[-5:] == [181, 104, 182, 177, 193]
    # ChaCha8, 128-bit zero key, zero nonce (TC1) blocks 0 and 1; ChaCha20 256-bit zero key
    r = chacha_block([0] * 16, [0] * 8, 0, 8)
    assert bytes(r[:8]).hex() == 'e28a5fa4a67f8c5d'
    r = chacha_block([0] * 16, [0] * 8, 1, 8)
    assert bytes(r[:8]).hex() == '8a26af448a1ba906'
    r = chacha_block([0] * 32, [0] * 8, 0, 20)
    assert bytes(r[:16]).hex() == '76b8e0ada0f13d90405d6ae55386bd28'
    # RC4 (RFC 6229 / classic)
    S = rc4_ksa(list(b'Key'))
    ks, S, i, j = rc4_prga(S, 0, 0, 10)
    assert bytes(a ^ b for a, b in zip(ks, b'Plaintext')).hex().upper() == 'BBF316E8D940AF0AD3'
    S = rc4_ksa(list(b'Wiki'))
    ks, _, _, _ = rc4_prga(S, 0, 0, 6)
    assert bytes(ks).hex().upper() == '6044DB6D41B7'
    print('  refs.stream ok: Salsa20 spec examples (quarterround, hash, 16/32-byte expansion), ChaCha8/20 known answers, RC4 classic vectors')


if __name__ == '__main__':
    selftest()
