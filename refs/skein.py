"""Reference Skein 1.3 (UBI chaining, configuration block, counter-mode output, tree hashing) over a block function
E(key bytes, tweak bytes, block bytes) -> bytes, so that a check can use an uninterpreted Threefish."""
from refs import ciphers as RC

TYPES = {'key': 0, 'cfg': 4, 'prs': 8, 'PK': 12, 'kdf': 16, 'non': 20, 'msg': 48, 'out': 63}


def tweak_bytes(position, level, bitpad, typ, first, final):
    t = (position & ((1 << 96) - 1)) | (level << 112) | (bitpad << 119) | (TYPES[typ] << 120) | (first << 126) | (final << 127)
    return [(t >> (8 * i)) & 0xff for i in range(16)]


def ubi(E, G, M, typ, L=None, level=0, pos0=0):
    "UBI(G, M, Ts): M byte values (first L bits when L is given, most significant bit first), start position pos0"
    Nb = len(G)
    M = list(M)
    bitpad = 0
    if L is not None:
        n, r = divmod(L, 8)
        if r:
            M = M[:n] + [(M[n] & ((0xff << (8 - r)) & 0xff)) | (0x80 >> r)]
            bitpad = 1
        else:
            M = M[:n]
    NM = len(M)
    nblk = max(1, (NM + Nb - 1) // Nb)
    M = M + [0] * (nblk * Nb - NM)
    H = list(G)
    for i in range(nblk):
        blk = M[i * Nb:(i + 1) * Nb]
        last = i == nblk - 1
        pos = pos0 + min(NM, (i + 1) * Nb)
        T = tweak_bytes(pos, level, bitpad if last else 0, typ, 1 if i == 0 else 0, 1 if last else 0)
        X = E(H, T, blk)
        H = [a ^ b for a, b in zip(X, blk)]
    return H


def config(No, Yl=0, Yf=0, Ym=0):
    return list(b'SHA3') + [1, 0, 0, 0] + [(No >> (8 * i)) & 0xff for i in range(8)] + [Yl, Yf, Ym] + [0] * 13


def output(E, G, No):
    nbytes = (No + 7) // 8
    out = []
    n = 0
    while len(out) < nbytes:
        out += ubi(E, G, [(n >> (8 * i)) & 0xff for i in range(8)], 'out')
        n += 1
    return out[:nbytes]


def skein(E, Nb, No, M, L=None, key=None, prs=None, PK=None, kdf=None, nonce=None, Yl=0, Yf=0, Ym=0):
    "Nb in bytes; returns ceil(No/8) byte values"
    G = [0] * Nb
    if key is not None:
        G = ubi(E, G, key, 'key')
    G = ubi(E, G, config(No, Yl, Yf, Ym), 'cfg')
    for s, t in ((prs, 'prs'), (PK, 'PK'), (kdf, 'kdf'), (nonce, 'non')):
        if s:
            G = ubi(E, G, s, t)
    if Yl == Yf == Ym == 0:
        G = ubi(E, G, M, 'msg', L)
    else:
        G = tree(E, G, list(M), Nb, Yl, Yf, Ym)
    return output(E, G, No)


def tree(E, G, M, Nb, Yl, Yf, Ym):
    Nl, Nn = Nb << Yl, Nb << Yf
    lvl = 1
    nxt = []
    for i in range(0, max(len(M), 1), Nl):
        nxt += ubi(E, G, M[i:i + Nl], 'msg', None, lvl, i)
    M = nxt
    while True:
        if len(M) == Nb:
            return M
        lvl += 1
        if lvl == Ym:
            return ubi(E, G, M, 'msg', None, lvl, 0)
        nxt = []
        for i in range(0, len(M), Nn):
            nxt += ubi(E, G, M[i:i + Nn], 'msg', None, lvl, i)
        M = nxt


def E_threefish(key, tweak, blk):
    return RC.threefish_enc(list(key), list(tweak), list(blk))


def selftest():
    h = bytes.fromhex
    E = E_threefish
    S = lambda Nb, No, M, **kw: bytes(skein(E, Nb // 8, No, list(M), **kw)).hex().upper()
    assert S(256, 256, h('FF')) == '0B98DCD198EA0E50A7A244C444E25C23DA30C10FC9A1F270A6637F1F34E67ED2'
    assert S(256, 256, b'') == 'C8877087DA56E072870DAA843F176E9453115929094C3A40C463A196C29BF7BA'
    assert S(256, 256, bytes(0xff - i for i in range(32))) == '8D0FA4EF777FD759DFD4044E6F6A5AC3C774AEC943DCFC07927B723B5DBF408B'
    assert S(512, 512, h('FF')).startswith('71B7BCE6FE6452227B9CED6014249E5BF9A9754C3AD618CCC4E0AAE16B316CC8')
    assert S(512, 512, bytes(0xff - i for i in range(64))).startswith('45863BA3BE0C4DFC27E75D358496F4AC9A736A505D9313B42B2F5EADA79FC17F')
    assert S(1024, 1024, h('FF')).startswith('E62C05802EA0152407CDD8787FDA9E35703DE862A4FBC119CFF8590AFE79250B')
    assert S(256, 256, h('00'), L=1) == '52D2B5FFC2966C06BA7BB0CC2BABBC935E99146487FB361A239830D4D688C988'
    assert S(256, 256, bytes(33), L=257) == '3EAEA996FAD95B6032654D6CA93AC3450BED8C754CD8000460A2876E34E52FA7'
    assert S(256, 256, b'', key=list(h('CB41F1706CDE09651203C2D0EFBADDF8'))) == '886E4EFEFC15F06AA298963971D7A25398FFFE5681C84DB39BD00851F64AE29D'
    K = h('CB41F1706CDE09651203C2D0EFBADDF847A0D315CB2E53FF8BAC41DA0002672E920244C66E02D5F0DAD3E94C42BB65F0D14157DECF4105EF5609D5B0984457C193')
    M = h('D3090C72167517F7C7AD82A70C2FD3F6443F608301591E598EADB195E8357135BA26FEDE2EE187417F816048D00FC235')
    assert S(256, 256, M, key=list(K)) == 'C353A316558EC34F8245DD2F9C2C4961FBC7DECC3B69053C103E4B8AAAF20394'
    M = h("000102010401060108010A010C010E01100112011401160118011A011C011E01200122012401260128012A012C012E01300132013401360138013A013C013E01"
          "400142014401460148014A014C014E01500152015401560158015A015C015E01600162016401660168016A016C016E01700172017401760178017A017C01")
    assert S(256, 256, M, Yl=2, Yf=2, Ym=2) == 'E3CF8FCDD20BFE85D175448007226C20FF22A65DC9DF7588BE305E5CCC3F4941'
    # configuration IVs of the specification (annex B)
    import struct
    iv = bytes(ubi(E, [0] * 32, config(128), 'cfg'))
    assert iv == struct.pack('<QQQQ', 0xE1111906964D7260, 0x883DAAA77C8D811C, 0x10080DF491960F7A, 0xCCF7DDE5B45BC1C2)
    print('  refs.skein ok: 11 vectors of the Skein 1.3 specification (hash 256/512/1024, bit lengths, MAC, tree) + IV 256-128')


if __name__ == '__main__':
    selftest()
