"""Reference AES (FIPS 197), DES / TDEA (FIPS 46-3, SP 800-67), Serpent (AES submission, bitslice description) and
Threefish (Skein 1.3) over plain integer operators (run on ints and on symbolic values).
Non-linear tables are reached through a `leaves` object so that a check can swap in uninterpreted functions."""
from refs.mdsha import rotl as _rotl


def sel(c, a, b):
    if isinstance(c, bool):
        return a if c else b
    from symx.core import ite
    return ite(c, a, b)


def lookup(tab, i):
    if isinstance(i, int):
        return tab[i]
    from symx.core import sx_getitem
    return sx_getitem(tab, i)


# ---- GF(2^8) and AES ---------------------------------------------------------------------------------------
def xtime(a):
    "multiplication by x modulo x^8+x^4+x^3+x+1"
    return ((a << 1) & 0xff) ^ sel(((a >> 7) & 1) != 0, 0x1b, 0)


def gf_mul(a, b):
    "a*b in GF(2^8) (shift-and-add; b may be symbolic too)"
    r = 0
    p = a
    for i in range(8):
        r = r ^ sel(((b >> i) & 1) != 0, p, 0)
        p = xtime(p)
    return r


def gf_mulc(a, c):
    "a*c for a CONSTANT c: xor of xtime powers (GF(2)-linear in a)"
    r = 0
    p = a
    while c:
        if c & 1:
            r = r ^ p
        p = xtime(p)
        c >>= 1
    return r


def _gf_inv(a):
    if a == 0:
        return 0
    r = 1
    for _ in range(254):
        r = gf_mul(r, a)
    return r


def _mk_sbox():
    S = []
    for a in range(256):
        x = _gf_inv(a)
        y = x
        for k in range(1, 5):
            y ^= ((x << k) | (x >> (8 - k))) & 0xff
        S.append(y ^ 0x63)
    return S


AES_S = _mk_sbox()
AES_SI = [0] * 256
for _i, _v in enumerate(AES_S):
    AES_SI[_v] = _i


class AesStd(object):
    @staticmethod
    def S(x): return lookup(AES_S, x)
    @staticmethod
    def Si(x): return lookup(AES_SI, x)


def aes_expand(key, leaves=AesStd):
    "key: list of 16/24/32 byte values -> list of round keys (each 16 bytes)"
    Nk = len(key) // 4
    Nr = Nk + 6
    w = [list(key[4 * i:4 * i + 4]) for i in range(Nk)]
    rc = 1
    for i in range(Nk, 4 * (Nr + 1)):
        t = list(w[i - 1])
        if i % Nk == 0:
            t = [leaves.S(t[1]) ^ rc, leaves.S(t[2]), leaves.S(t[3]), leaves.S(t[0])]
            rc = xtime(rc)
        elif Nk > 6 and i % Nk == 4:
            t = [leaves.S(b) for b in t]
        w.append([a ^ b for a, b in zip(w[i - Nk], t)])
    return [[b for ww in w[4 * r:4 * r + 4] for b in ww] for r in range(Nr + 1)]


def aes_enc(key, blk, leaves=AesStd):
    rk = aes_expand(key, leaves)
    Nr = len(rk) - 1
    st = [a ^ b for a, b in zip(blk, rk[0])]
    for r in range(1, Nr + 1):
        st = [leaves.S(b) for b in st]
        st = [st[(4 * c + row + 4 * row) % 16] for c in range(4) for row in range(4)]       # ShiftRows, column-major state
        if r < Nr:
            ns = []
            for c in range(4):
                a, b, cc, d = st[4 * c:4 * c + 4]
                ns += [gf_mulc(a, 2) ^ gf_mulc(b, 3) ^ cc ^ d, a ^ gf_mulc(b, 2) ^ gf_mulc(cc, 3) ^ d,
                       a ^ b ^ gf_mulc(cc, 2) ^ gf_mulc(d, 3), gf_mulc(a, 3) ^ b ^ cc ^ gf_mulc(d, 2)]
            st = ns
        st = [a ^ b for a, b in zip(st, rk[r])]
    return st


def aes_dec(key, blk, leaves=AesStd):
    rk = aes_expand(key, leaves)
    Nr = len(rk) - 1
    st = [a ^ b for a, b in zip(blk, rk[Nr])]
    for r in range(Nr - 1, -1, -1):
        st = [st[(4 * c + row - 4 * row) % 16] for c in range(4) for row in range(4)]       # InvShiftRows
        st = [leaves.Si(b) for b in st]
        st = [a ^ b for a, b in zip(st, rk[r])]
        if r > 0:
            ns = []
            for c in range(4):
                a, b, cc, d = st[4 * c:4 * c + 4]
                ns += [gf_mulc(a, 14) ^ gf_mulc(b, 11) ^ gf_mulc(cc, 13) ^ gf_mulc(d, 9),
                       gf_mulc(a, 9) ^ gf_mulc(b, 14) ^ gf_mulc(cc, 11) ^ gf_mulc(d, 13),
                       gf_mulc(a, 13) ^ gf_mulc(b, 9) ^ gf_mulc(cc, 14) ^ gf_mulc(d, 11),
                       gf_mulc(a, 11) ^ gf_mulc(b, 13) ^ gf_mulc(cc, 9) ^ gf_mulc(d, 14)]
            st = ns
    return st


# ---- DES (FIPS 46-3; bit 1 = most significant bit of the first byte) ------------------------------------------
DES_IP = [58, 50, 42, 34, 26, 18, 10, 2, 60, 52, 44, 36, 28, 20, 12, 4, 62, 54, 46, 38, 30, 22, 14, 6, 64, 56, 48, 40, 32, 24, 16, 8,
          57, 49, 41, 33, 25, 17, 9, 1, 59, 51, 43, 35, 27, 19, 11, 3, 61, 53, 45, 37, 29, 21, 13, 5, 63, 55, 47, 39, 31, 23, 15, 7]
DES_FP = [40, 8, 48, 16, 56, 24, 64, 32, 39, 7, 47, 15, 55, 23, 63, 31, 38, 6, 46, 14, 54, 22, 62, 30, 37, 5, 45, 13, 53, 21, 61, 29,
          36, 4, 44, 12, 52, 20, 60, 28, 35, 3, 43, 11, 51, 19, 59, 27, 34, 2, 42, 10, 50, 18, 58, 26, 33, 1, 41, 9, 49, 17, 57, 25]
DES_E = [32, 1, 2, 3, 4, 5, 4, 5, 6, 7, 8, 9, 8, 9, 10, 11, 12, 13, 12, 13, 14, 15, 16, 17, 16, 17, 18, 19, 20, 21, 20, 21, 22, 23, 24, 25,
         24, 25, 26, 27, 28, 29, 28, 29, 30, 31, 32, 1]
DES_P = [16, 7, 20, 21, 29, 12, 28, 17, 1, 15, 23, 26, 5, 18, 31, 10, 2, 8, 24, 14, 32, 27, 3, 9, 19, 13, 30, 6, 22, 11, 4, 25]
DES_PC1 = [57, 49, 41, 33, 25, 17, 9, 1, 58, 50, 42, 34, 26, 18, 10, 2, 59, 51, 43, 35, 27, 19, 11, 3, 60, 52, 44, 36,
           63, 55, 47, 39, 31, 23, 15, 7, 62, 54, 46, 38, 30, 22, 14, 6, 61, 53, 45, 37, 29, 21, 13, 5, 28, 20, 12, 4]
DES_PC2 = [14, 17, 11, 24, 1, 5, 3, 28, 15, 6, 21, 10, 23, 19, 12, 4, 26, 8, 16, 7, 27, 20, 13, 2,
           41, 52, 31, 37, 47, 55, 30, 40, 51, 45, 33, 48, 44, 49, 39, 56, 34, 53, 46, 42, 50, 36, 29, 32]
DES_SHIFTS = [1, 1, 2, 2, 2, 2, 2, 2, 1, 2, 2, 2, 2, 2, 2, 1]
DES_S = [
    [14, 4, 13, 1, 2, 15, 11, 8, 3, 10, 6, 12, 5, 9, 0, 7, 0, 15, 7, 4, 14, 2, 13, 1, 10, 6, 12, 11, 9, 5, 3, 8,
     4, 1, 14, 8, 13, 6, 2, 11, 15, 12, 9, 7, 3, 10, 5, 0, 15, 12, 8, 2, 4, 9, 1, 7, 5, 11, 3, 14, 10, 0, 6, 13],
    [15, 1, 8, 14, 6, 11, 3, 4, 9, 7, 2, 13, 12, 0, 5, 10, 3, 13, 4, 7, 15, 2, 8, 14, 12, 0, 1, 10, 6, 9, 11, 5,
     0, 14, 7, 11, 10, 4, 13, 1, 5, 8, 12, 6, 9, 3, 2, 15, 13, 8, 10, 1, 3, 15, 4, 2, 11, 6, 7, 12, 0, 5, 14, 9],
    [10, 0, 9, 14, 6, 3, 15, 5, 1, 13, 12, 7, 11, 4, 2, 8, 13, 7, 0, 9, 3, 4, 6, 10, 2, 8, 5, 14, 12, 11, 15, 1,
     13, 6, 4, 9, 8, 15, 3, 0, 11, 1, 2, 12, 5, 10, 14, 7, 1, 10, 13, 0, 6, 9, 8, 7, 4, 15, 14, 3, 11, 5, 2, 12],
    [7, 13, 14, 3, 0, 6, 9, 10, 1, 2, 8, 5, 11, 12, 4, 15, 13, 8, 11, 5, 6, 15, 0, 3, 4, 7, 2, 12, 1, 10, 14, 9,
     10, 6, 9, 0, 12, 11, 7, 13, 15, 1, 3, 14, 5, 2, 8, 4, 3, 15, 0, 6, 10, 1, 13, 8, 9, 4, 5, 11, 12, 7, 2, 14],
    [2, 12, 4, 1, 7, 10, 11, 6, 8, 5, 3, 15, 13, 0, 14, 9, 14, 11, 2, 12, 4, 7, 13, 1, 5, 0, 15, 10, 3, 9, 8, 6,
     4, 2, 1, 11, 10, 13, 7, 8, 15, 9, 12, 5, 6, 3, 0, 14, 11, 8, 12, 7, 1, 14, 2, 13, 6, 15, 0, 9, 10, 4, 5, 3],
    [12, 1, 10, 15, 9, 2, 6, 8, 0, 13, 3, 4, 14, 7, 5, 11, 10, 15, 4, 2, 7, 12, 9, 5, 6, 1, 13, 14, 0, 11, 3, 8,
     9, 14, 15, 5, 2, 8, 12, 3, 7, 0, 4, 10, 1, 13, 11, 6, 4, 3, 2, 12, 9, 5, 15, 10, 11, 14, 1, 7, 6, 0, 8, 13],
    [4, 11, 2, 14, 15, 0, 8, 13, 3, 12, 9, 7, 5, 10, 6, 1, 13, 0, 11, 7, 4, 9, 1, 10, 14, 3, 5, 12, 2, 15, 8, 6,
     1, 4, 11, 13, 12, 3, 7, 14, 10, 15, 6, 8, 0, 5, 9, 2, 6, 11, 13, 8, 1, 4, 10, 7, 9, 5, 0, 15, 14, 2, 3, 12],
    [13, 2, 8, 4, 6, 15, 11, 1, 10, 9, 3, 14, 5, 0, 12, 7, 1, 15, 13, 8, 10, 3, 7, 4, 12, 5, 6, 11, 0, 14, 9, 2,
     7, 11, 4, 1, 9, 12, 14, 2, 0, 6, 10, 13, 15, 3, 5, 8, 2, 1, 14, 7, 4, 10, 8, 13, 15, 12, 9, 0, 3, 5, 6, 11],
]


class DesStd(object):
    @staticmethod
    def S(n, idx):
        "idx = row*16 + col, row = b1 b6, col = b2 b3 b4 b5"
        return lookup(DES_S[n], idx)


def bits_of(bs):
    "byte values -> bit list, bit 1 first (MSB of first byte)"
    return [(b >> (7 - k)) & 1 for b in bs for k in range(8)]


def bytes_of(bits):
    out = []
    for i in range(0, len(bits), 8):
        v = 0
        for b in bits[i:i + 8]:
            v = (v << 1) | b
        out.append(v)
    return out


def _perm(bits, tab):
    return [bits[t - 1] for t in tab]


def des_subkeys(key):
    k = _perm(bits_of(key), DES_PC1)
    C, D = k[:28], k[28:]
    out = []
    for s in DES_SHIFTS:
        C = C[s:] + C[:s]
        D = D[s:] + D[:s]
        out.append(_perm(C + D, DES_PC2))
    return out


def des_f(R, K, leaves):
    x = [a ^ b for a, b in zip(_perm(R, DES_E), K)]
    out = []
    for n in range(8):
        b = x[6 * n:6 * n + 6]
        idx = (b[0] << 5) | (b[5] << 4) | (b[1] << 3) | (b[2] << 2) | (b[3] << 1) | b[4]
        v = leaves.S(n, idx)
        out += [(v >> 3) & 1, (v >> 2) & 1, (v >> 1) & 1, v & 1]
    return _perm(out, DES_P)


def des_crypt(key, blk, decrypt=False, leaves=DesStd):
    ks = des_subkeys(key)
    if decrypt:
        ks = ks[::-1]
    b = _perm(bits_of(blk), DES_IP)
    L, R = b[:32], b[32:]
    for K in ks:
        L, R = R, [a ^ c for a, c in zip(L, des_f(R, K, leaves))]
    return bytes_of(_perm(R + L, DES_FP))


def tdea(keys, blk, decrypt=False, leaves=DesStd):
    "keys = (K1,K2,K3); SP 800-67: C = E3(D2(E1(P)))"
    k1, k2, k3 = keys
    if not decrypt:
        return des_crypt(k3, des_crypt(k2, des_crypt(k1, blk, False, leaves), True, leaves), False, leaves)
    return des_crypt(k1, des_crypt(k2, des_crypt(k3, blk, True, leaves), False, leaves), True, leaves)


# ---- Serpent (bitslice description; 128-bit values as integers, word i = bits 32i..32i+31) --------------------
SERPENT_S = [
    [3, 8, 15, 1, 10, 6, 5, 11, 14, 13, 4, 2, 7, 0, 9, 12], [15, 12, 2, 7, 9, 0, 5, 10, 1, 11, 14, 8, 6, 13, 3, 4],
    [8, 6, 7, 9, 3, 12, 10, 15, 13, 1, 14, 4, 0, 11, 5, 2], [0, 15, 11, 8, 12, 9, 6, 3, 13, 1, 2, 4, 10, 7, 5, 14],
    [1, 15, 8, 3, 12, 0, 11, 6, 2, 5, 4, 10, 9, 14, 7, 13], [15, 5, 2, 11, 4, 10, 9, 12, 0, 3, 14, 8, 13, 6, 7, 1],
    [7, 2, 12, 5, 8, 4, 6, 11, 14, 9, 1, 15, 13, 3, 10, 0], [1, 13, 15, 0, 14, 8, 2, 11, 7, 4, 12, 10, 9, 3, 5, 6]]
SERPENT_SI = [[s.index(v) for v in range(16)] for s in SERPENT_S]
PHI = 0x9e3779b9
M32 = (1 << 32) - 1


def serpent_sbox(box, X):
    "bitslice application: nibble j = bit j of words 0..3"
    w = [(X >> (32 * i)) & M32 for i in range(4)]
    out = [0, 0, 0, 0]
    for j in range(32):
        nib = ((w[0] >> j) & 1) | (((w[1] >> j) & 1) << 1) | (((w[2] >> j) & 1) << 2) | (((w[3] >> j) & 1) << 3)
        v = lookup(box, nib)
        for i in range(4):
            out[i] = out[i] | (((v >> i) & 1) << j)
    return out[0] | (out[1] << 32) | (out[2] << 64) | (out[3] << 96)


class SerpentStd(object):
    @staticmethod
    def S(i, X): return serpent_sbox(SERPENT_S[i], X)
    @staticmethod
    def Si(i, X): return serpent_sbox(SERPENT_SI[i], X)


def serpent_L(X):
    x = [(X >> (32 * i)) & M32 for i in range(4)]
    x[0] = _rotl(x[0], 13, 32); x[2] = _rotl(x[2], 3, 32)
    x[1] = x[1] ^ x[0] ^ x[2]; x[3] = x[3] ^ x[2] ^ ((x[0] << 3) & M32)
    x[1] = _rotl(x[1], 1, 32); x[3] = _rotl(x[3], 7, 32)
    x[0] = x[0] ^ x[1] ^ x[3]; x[2] = x[2] ^ x[3] ^ ((x[1] << 7) & M32)
    x[0] = _rotl(x[0], 5, 32); x[2] = _rotl(x[2], 22, 32)
    return x[0] | (x[1] << 32) | (x[2] << 64) | (x[3] << 96)


def serpent_Linv(X):
    x = [(X >> (32 * i)) & M32 for i in range(4)]
    x[2] = _rotl(x[2], 10, 32); x[0] = _rotl(x[0], 27, 32)
    x[2] = x[2] ^ x[3] ^ ((x[1] << 7) & M32); x[0] = x[0] ^ x[1] ^ x[3]
    x[3] = _rotl(x[3], 25, 32); x[1] = _rotl(x[1], 31, 32)
    x[3] = x[3] ^ x[2] ^ ((x[0] << 3) & M32); x[1] = x[1] ^ x[0] ^ x[2]
    x[2] = _rotl(x[2], 29, 32); x[0] = _rotl(x[0], 19, 32)
    return x[0] | (x[1] << 32) | (x[2] << 64) | (x[3] << 96)


def le_int(bs):
    v = 0
    for i, b in enumerate(bs):
        v = v | (b << (8 * i))
    return v


def le_bytes(v, n):
    return [(v >> (8 * i)) & 0xff for i in range(n)]


def serpent_keys(key, leaves=SerpentStd, nbits=None):
    """key: 1..32 bytes (little-endian integer), or an integer together with its bit length nbits (any 1..256);
    short keys are padded with a 1 bit then zeros to 256 bits"""
    if nbits is None:
        K = le_int(key)
        nbits = 8 * len(key)
    else:
        K = key
    if nbits < 256:
        K = K | (1 << nbits)
    w = [(K >> (32 * i)) & M32 for i in range(8)]
    for i in range(132):
        w.append(_rotl(w[-8] ^ w[-5] ^ w[-3] ^ w[-1] ^ PHI ^ i, 11, 32))
    w = w[8:]
    keys = []
    for i in range(33):
        X = w[4 * i] | (w[4 * i + 1] << 32) | (w[4 * i + 2] << 64) | (w[4 * i + 3] << 96)
        keys.append(leaves.S((3 - i) % 8, X))
    return keys


def serpent_enc(key, blk, leaves=SerpentStd, nbits=None):
    k = serpent_keys(key, leaves, nbits)
    B = le_int(blk)
    for i in range(31):
        B = serpent_L(leaves.S(i % 8, B ^ k[i]))
    B = leaves.S(7, B ^ k[31]) ^ k[32]
    return le_bytes(B, 16)


def serpent_dec(key, blk, leaves=SerpentStd, nbits=None):
    k = serpent_keys(key, leaves, nbits)
    B = le_int(blk)
    B = leaves.Si(7, B ^ k[32]) ^ k[31]
    for i in range(30, -1, -1):
        B = leaves.Si(i % 8, serpent_Linv(B)) ^ k[i]
    return le_bytes(B, 16)


# ---- Threefish (Skein 1.3, section 3.3) ----------------------------------------------------------------------
TF_PI = {4: (0, 3, 2, 1), 8: (2, 1, 4, 7, 6, 5, 0, 3), 16: (0, 9, 2, 13, 6, 11, 4, 15, 10, 7, 12, 3, 14, 5, 8, 1)}
TF_R = {4: ((14, 16), (52, 57), (23, 40), (5, 37), (25, 33), (46, 12), (58, 22), (32, 32)),
        8: ((46, 36, 19, 37), (33, 27, 14, 42), (17, 49, 36, 39), (44, 9, 54, 56), (39, 30, 34, 24), (13, 50, 10, 17), (25, 29, 39, 43), (8, 35, 56, 22)),
        16: ((24, 13, 8, 47, 8, 17, 22, 37), (38, 19, 10, 55, 49, 18, 23, 52), (33, 4, 51, 13, 34, 41, 59, 17), (5, 20, 48, 41, 47, 28, 16, 25),
             (41, 9, 37, 31, 12, 47, 44, 30), (16, 34, 56, 51, 4, 53, 42, 41), (31, 44, 47, 46, 19, 42, 44, 25), (9, 48, 35, 52, 23, 31, 37, 20))}
C240 = 0x1BD11BDAA9FC1A22
M64 = (1 << 64) - 1


def _words64(bs):
    return [le_int(bs[8 * i:8 * i + 8]) for i in range(len(bs) // 8)]


def tf_subkeys(key, tweak):
    k = _words64(key)
    Nw = len(k)
    x = C240
    for v in k:
        x = x ^ v
    k = k + [x]
    t = _words64(tweak)
    t = t + [t[0] ^ t[1]]
    Nr = 72 if Nw < 16 else 80
    out = []
    for s in range(Nr // 4 + 1):
        ks = [k[(s + i) % (Nw + 1)] for i in range(Nw)]
        ks[Nw - 3] = (ks[Nw - 3] + t[s % 3]) & M64
        ks[Nw - 2] = (ks[Nw - 2] + t[(s + 1) % 3]) & M64
        ks[Nw - 1] = (ks[Nw - 1] + s) & M64
        out.append(ks)
    return out


def threefish_enc(key, tweak, blk):
    sk = tf_subkeys(key, tweak)
    v = _words64(blk)
    Nw = len(v)
    Nr = 72 if Nw < 16 else 80
    for d in range(Nr):
        e = [(v[i] + sk[d // 4][i]) & M64 for i in range(Nw)] if d % 4 == 0 else v
        f = []
        for j in range(Nw // 2):
            y0 = (e[2 * j] + e[2 * j + 1]) & M64
            y1 = _rotl(e[2 * j + 1], TF_R[Nw][d % 8][j], 64) ^ y0
            f += [y0, y1]
        v = [f[TF_PI[Nw][i]] for i in range(Nw)]
    c = [(v[i] + sk[Nr // 4][i]) & M64 for i in range(Nw)]
    return [b for w in c for b in le_bytes(w, 8)]


def threefish_dec(key, tweak, blk):
    sk = tf_subkeys(key, tweak)
    c = _words64(blk)
    Nw = len(c)
    Nr = 72 if Nw < 16 else 80
    v = [(c[i] - sk[Nr // 4][i]) & M64 for i in range(Nw)]
    pinv = [0] * Nw
    for i, p in enumerate(TF_PI[Nw]):
        pinv[p] = i
    for d in range(Nr - 1, -1, -1):
        f = [v[pinv[i]] for i in range(Nw)]
        e = []
        for j in range(Nw // 2):
            y0, y1 = f[2 * j], f[2 * j + 1]
            x1 = _rotl(y0 ^ y1, 64 - TF_R[Nw][d % 8][j], 64)
            e += [(y0 - x1) & M64, x1]
        v = [(e[i] - sk[d // 4][i]) & M64 for i in range(Nw)] if d % 4 == 0 else e
    return [b for w in v for b in le_bytes(w, 8)]


def selftest():
    h = bytes.fromhex
    # FIPS 197 appendix C
    pt = h('00112233445566778899aabbccddeeff')
    for k, c in (('000102030405060708090a0b0c0d0e0f', '69c4e0d86a7b0430d8cdb78070b4c55a'),
                 ('000102030405060708090a0b0c0d0e0f1011121314151617', 'dda97ca4864cdfe06eaf70a0ec0d7191'),
                 ('000102030405060708090a0b0c0d0e0f101112131415161718191a1b1c1d1e1f', '8ea2b7ca516745bfeafc49904b496089')):
        assert bytes(aes_enc(list(h(k)), list(pt))).hex() == c
        assert bytes(aes_dec(list(h(k)), list(h(c)))) == pt
    assert bytes(aes_enc(list(h('2b7e151628aed2a6abf7158809cf4f3c')), list(h('3243f6a8885a308d313198a2e0370734')))).hex() == '3925841d02dc09fbdc118597196a0b32'
    assert AES_S[0] == 0x63 and AES_S[0x53] == 0xed and gf_mul(0x57, 0x83) == 0xc1 and gf_mul(0x57, 0x13) == 0xfe
    # DES: classic worked example, NBS variable-plaintext / variable-key known answers
    assert bytes(des_crypt(list(h('133457799BBCDFF1')), list(h('0123456789ABCDEF')))).hex().upper() == '85E813540F0AB405'
    assert bytes(des_crypt(list(h('0101010101010101')), list(h('95F8A5E5DD31D900')))).hex().upper() == '8000000000000000'
    assert bytes(des_crypt(list(h('8001010101010101')), [0] * 8)).hex().upper() == '95A8D72813DAA94D'
    assert bytes(des_crypt(list(h('0123456789ABCDEF')), list(b'Now is t'))).hex().upper() == '3FA40E8A984D4815'
    assert bytes(des_crypt(list(h('133457799BBCDFF1')), list(h('85E813540F0AB405')), True)).hex().upper() == '0123456789ABCDEF'
    # Serpent NESSIE vectors (byte conventions as used by the library's tests)
    for k, p, c in (('80' + '00' * 31, '00' * 16, 'A223AA1288463C0E2BE38EBD825616C0'), ('40' + '00' * 31, '00' * 16, 'EAE1D405570174DF7DF2F9966D509159'),
                    ('11' * 32, '11' * 16, 'A482EAA5D5771F2FDB2EA1A5F141B9E2')):
        assert bytes(serpent_enc(list(h(k)), list(h(p)))).hex().upper() == c, k
        assert bytes(serpent_dec(list(h(k)), list(h(c)))) == h(p)
    # Threefish (Skein 1.3 reference vectors)
    z = lambda n: [0] * n
    assert bytes(threefish_enc(z(32), z(16), z(32))).hex() == '84da2a1f8beaee947066ae3e3103f1ad536db1f4a1192495116b9f3ce6133fd8'
    k = list(range(0x10, 0x30)); t = list(range(16)); m = [0xff - i for i in range(32)]
    assert bytes(threefish_enc(k, t, m)).hex() == 'e0d091ff0eea8fdfc98192e62ed80ad59d865d08588df476657056b5955e97df'
    assert threefish_dec(k, t, threefish_enc(k, t, m)) == m
    assert bytes(threefish_enc(z(64), z(16), z(64))).hex().startswith('b1a2bbc6ef6025bc40eb3822161f36e3')
    assert bytes(threefish_enc(z(128), z(16), z(128))).hex().startswith('f05c3d0a3d05b304f785ddc7d1e03601')
    k = list(range(0x10, 0x90)); m = [0xff - i for i in range(128)]
    assert bytes(threefish_enc(k, t, m)).hex().startswith('a6654ddbd73cc3b05dd777105aa849bc')
    assert threefish_dec(k, t, threefish_enc(k, t, m)) == m
    print('  refs.ciphers ok: AES (FIPS-197 C.1-C.3 + B), DES (5 known answers), Serpent (3 NESSIE), Threefish-256/512/1024 (5 vectors)')


if __name__ == '__main__':
    selftest()
