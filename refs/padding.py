"""Reference padding schemes (bit-granular where the scheme is), from their specifications:
ISO/IEC 7816-4 / 9797-1 method 2 (bitpadding), PKCS#7 (RFC 5652 6.3), ANSI X9.23, zero padding,
MD (RFC 1321 3.1-3.2), SHA (FIPS 180-4 5.1), BLAKE (submission 2.1.1 / 2.2.1).
Byte values may be ints or symbolic; lengths are concrete."""


def take_bits(M, L):
    "first L bits of M (MSB-first in each byte) as (full bytes list, partial byte value or None, r = L % 8)"
    nfull, r = divmod(L, 8)
    full = list(M[:nfull])
    part = None
    if r:
        part = M[nfull] & ((0xff << (8 - r)) & 0xff)
    return full, part, r


def msg_bytes(M, L):
    "the message M[0:L] as bytes, last partial byte zero-filled"
    full, part, r = take_bits(M, L)
    return full + ([part] if r else [])


def pad(scheme, B, M, L=None, w=32, hsize=256, base=0):
    """returns (padded byte list, padcnt in bits or None).  B: block size in bits.
    base: message bits already consumed before M (a multiple of B); only the length field depends on it."""
    if L is None:
        L = 8 * len(M)
    Bb = B // 8
    full, part, r = take_bits(M, L)
    if scheme == 'nopadding':
        return list(M), 0
    if scheme == 'Nullpadding':
        out = full + ([part] if r else [])
        q = (-L) % B
        if L == 0:
            q = B
        while len(out) % Bb or not out:
            out.append(0)
        return out, q
    if scheme == 'bitpadding':
        out = full + ([part | (0x80 >> r)] if r else [0x80])
        while len(out) % Bb:
            out.append(0)
        return out, B - (L % B)
    if scheme == 'pkcs7':
        q = Bb - (len(M) % Bb)
        return list(M) + [q] * q, 8 * q
    if scheme == 'X923':
        q = Bb - (len(M) % Bb)
        return list(M) + [0] * (q - 1) + [q], 8 * q
    if scheme in ('MDpadding', 'SHApadding', 'Blakepadding'):
        lf = 2 * w // 8
        # smallest whole number of blocks holding message, the 1 bit, (BLAKE: the marker bit,) and the length field
        need = L + 1 + 2 * w + (1 if scheme == 'Blakepadding' else 0)
        plen = ((need + B - 1) // B) * B
        out = full + ([part | (0x80 >> r)] if r else [0x80])
        while len(out) < plen // 8 - lf:
            out.append(0)
        if scheme == 'Blakepadding' and hsize in (256, 512):
            out[-1] = out[-1] | 1        # the bit just before the length field
        lb = [((base + L) >> (8 * i)) & 0xff for i in range(lf)]
        if scheme != 'MDpadding':
            lb.reverse()
        return out + lb, None
    raise ValueError(scheme)


def blocks(padded, Bb):
    return [padded[i:i + Bb] for i in range(0, len(padded), Bb)]


def bitcnt_after(i, L, B):
    "consumed-bit counter after block i: message bits up to and including the block, 0 for a padding-only block"
    if i * B < L or (L == 0 and i == 0):
        return min(L, (i + 1) * B)
    return 0


def unpad_valid(scheme, Bb, X):
    "for concrete X: the pad length q if X ends in a valid PKCS#7 / X9.23 padding for block length Bb bytes, else None"
    if not X:
        return None
    q = X[-1]
    if q < 1 or q > Bb or q > len(X):
        return None
    if scheme == 'pkcs7':
        return q if all(b == q for b in X[-q:]) else None
    return q if all(b == 0 for b in X[-q:-1]) else None


def selftest():
    import hashlib
    # MD/SHA padding is validated through refs.mdsha; here: shape invariants on a sweep
    n = 0
    for scheme in ('Nullpadding', 'bitpadding', 'pkcs7', 'X923', 'MDpadding', 'SHApadding', 'Blakepadding'):
        for B in (8, 16, 64, 128, 512):
            if scheme in ('MDpadding', 'SHApadding', 'Blakepadding') and B != 512:
                continue
            for ln in range(0, 3 * B // 8 + 1):
                M = [(7 * i + 1) & 0xff for i in range(ln)]
                Ls = [None] if scheme in ('pkcs7', 'X923') else [None] + [8 * ln - k for k in range(1, 8) if 8 * ln - k >= 0]
                for L in Ls:
                    p, pc = pad(scheme, B, M, L)
                    assert len(p) % (B // 8) == 0 and len(p) > 0, (scheme, B, ln, L)
                    LL = 8 * ln if L is None else L
                    mb = msg_bytes(M, LL)
                    assert p[:len(mb) - (1 if LL % 8 else 0)] == mb[:len(mb) - (1 if LL % 8 else 0)]
                    n += 1
    assert pad('pkcs7', 64, [1, 2, 3])[0] == [1, 2, 3, 5, 5, 5, 5, 5]
    assert pad('X923', 64, [1, 2, 3])[0] == [1, 2, 3, 0, 0, 0, 0, 5]
    assert pad('bitpadding', 64, [1, 2, 3])[0] == [1, 2, 3, 0x80, 0, 0, 0, 0]
    assert pad('bitpadding', 32, [0xff], 3)[0] == [0xf0, 0, 0, 0]
    # BLAKE-256 one-byte message of the submission: 00 | 80 00.. 01 | 00..08
    p = pad('Blakepadding', 512, [0], None, 32, 256)[0]
    assert p[:2] == [0, 0x80] and p[55] == 1 and p[56:] == [0, 0, 0, 0, 0, 0, 0, 8], p
    p = pad('Blakepadding', 512, [0] * 55, None, 32, 256)[0]
    assert len(p) == 64 and p[55] == 0x81
    print('  refs.padding ok: %d layouts checked' % n)


if __name__ == '__main__':
    selftest()
