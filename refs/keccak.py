"""Reference Keccak-f[b] / sponge / duplex / SHA-3 / SHAKE (FIPS 202, Keccak reference 3.0), over plain integer
operators.  Rotation offsets are derived from the (t+1)(t+2)/2 walk and round constants from the LFSR, not copied.
The message is handled as ONE integer whose bit i is message bit i, so any rate (also not a multiple of 8) and any
bit length work the same way."""


def rho_offsets():
    r = {(0, 0): 0}
    x, y = 1, 0
    for t in range(24):
        r[(x, y)] = (t + 1) * (t + 2) // 2
        x, y = y, (2 * x + 3 * y) % 5
    return r


def round_constants():
    rc = []
    R = 1
    for i in range(24):
        c = 0
        for j in range(7):
            if R & 1:
                c |= 1 << ((1 << j) - 1)
            R <<= 1
            if R & 0x100:
                R ^= 0x171
        rc.append(c)
    return rc


RHO = rho_offsets()
RC = round_constants()


def rotl(x, n, w):
    n %= w
    if n == 0:
        return x
    return ((x << n) | (x >> (w - n))) & ((1 << w) - 1)


def keccak_round(A, rc, w):
    "A: dict (x,y)->lane"
    Mw = (1 << w) - 1
    C = [A[x, 0] ^ A[x, 1] ^ A[x, 2] ^ A[x, 3] ^ A[x, 4] for x in range(5)]
    D = [C[(x - 1) % 5] ^ rotl(C[(x + 1) % 5], 1, w) for x in range(5)]
    A = {(x, y): A[x, y] ^ D[x] for x in range(5) for y in range(5)}
    B = {}
    for x in range(5):
        for y in range(5):
            B[y, (2 * x + 3 * y) % 5] = rotl(A[x, y], RHO[x, y], w)
    A = {(x, y): B[x, y] ^ ((B[(x + 1) % 5, y] ^ Mw) & B[(x + 2) % 5, y]) for x in range(5) for y in range(5)}
    A[0, 0] = A[0, 0] ^ (rc & Mw)
    return A


def keccak_f(lanes, w):
    "lanes: list of 25 ints, index 5*y+x"
    l = {1: 0, 2: 1, 4: 2, 8: 3, 16: 4, 32: 5, 64: 6}[w]
    A = {(x, y): lanes[5 * y + x] for x in range(5) for y in range(5)}
    for i in range(12 + 2 * l):
        A = keccak_round(A, RC[i], w)
    return [A[x, y] for y in range(5) for x in range(5)]


def msg_int(M, L, nist):
    """the first L bits of byte string M as an integer (bit i = message bit i).  Whole bytes are LSB-first (Keccak
    convention); the trailing partial byte holds its bits MSB-first when nist is True (NIST/KAT convention),
    LSB-first otherwise."""
    n, r = divmod(L, 8)
    v = 0
    for i in range(n):
        v = v | (M[i] << (8 * i))
    if r:
        b = M[n]
        if nist:
            # Keccak submission 6.1 / KeccakNISTInterface: the partial byte carries its r bits in the high end and
            # is aligned down to the low end (value preserved, not bit-reversed)
            t = b >> (8 - r)
        else:
            t = b & ((1 << r) - 1)
        v = v | (t << (8 * n))
    return v


def sponge(b, r, P, L, outbits, state=None):
    "absorb integer message P of L bits with pad10*1 at rate r, squeeze outbits; returns (integer output, final lanes)"
    w = b // 25
    Mw = (1 << w) - 1
    total = ((L + 2 + r - 1) // r) * r
    P = P | (1 << L) | (1 << (total - 1))
    S = list(state) if state is not None else [0] * 25
    for k in range(total // r):
        blk = (P >> (k * r)) & ((1 << r) - 1)
        S = [S[l] ^ ((blk >> (w * l)) & Mw) for l in range(25)]
        S = keccak_f(S, w)
    Z = 0
    have = 0
    while True:
        st = 0
        for l in range(25):
            st = st | (S[l] << (w * l))
        Z = Z | ((st & ((1 << r) - 1)) << have)
        have += r
        if have >= outbits:
            break
        S = keccak_f(S, w)
    return Z & ((1 << outbits) - 1), S


def out_bytes(Z, outbits):
    return [(Z >> (8 * i)) & 0xff for i in range((outbits + 7) // 8)]


def keccak(b, r, M, L, outbits, nist=True):
    Z, _ = sponge(b, r, msg_int(M, L, nist), L, outbits)
    return out_bytes(Z, outbits)


def sha3(size, M):
    L = 8 * len(M)
    P = msg_int(M, L, False) | (0b10 << L)       # suffix bits 0,1
    Z, _ = sponge(1600, 1600 - 2 * size, P, L + 2, size)
    return out_bytes(Z, size)


def shake(sec, M, d):
    L = 8 * len(M)
    P = msg_int(M, L, False) | (0b1111 << L)
    Z, _ = sponge(1600, 1600 - 2 * sec, P, L + 4, d)
    return out_bytes(Z, d)


def duplex_step(b, r, state, M, L, outbits):
    "one duplexing call: pad10*1 of the (short) input, one permutation, outbits <= r of the state"
    w = b // 25
    Mw = (1 << w) - 1
    assert L + 2 <= r
    P = msg_int(M, L, False) | (1 << L) | (1 << (r - 1))
    S = [state[l] ^ ((P >> (w * l)) & Mw) for l in range(25)]
    S = keccak_f(S, w)
    st = 0
    for l in range(25):
        st = st | (S[l] << (w * l))
    return out_bytes(st & ((1 << outbits) - 1), outbits), S


def selftest():
    import hashlib, random
    assert RC[0] == 1 and RC[1] == 0x8082 and RC[23] == 0x8000000080008008 and RHO[1, 0] == 1 and RHO[2, 0] % 64 == 62 and RHO[3, 3] % 64 == 21
    rng = random.Random(3)
    n = 0
    for size in (224, 256, 384, 512):
        rate = (1600 - 2 * size) // 8
        for ln in list(range(0, 2 * rate + 3)) + [500]:
            m = bytes(rng.getrandbits(8) for _ in range(ln))
            assert bytes(sha3(size, m)) == hashlib.new('sha3_%d' % size, m).digest(), (size, ln)
            n += 1
    for sec, name in ((128, 'shake_128'), (256, 'shake_256')):
        for ln in (0, 1, 135, 136, 137, 167, 168, 169, 300):
            for d in (8, 256, 1344, 1352, 4000):
                m = bytes(rng.getrandbits(8) for _ in range(ln))
                assert bytes(shake(sec, m, d)) == hashlib.new(name, m).digest(d // 8), (sec, ln, d)
                n += 1
    # Keccak team KATs for small widths / bit lengths (as used in crysp/tests/test_keccak.py)
    assert bytes(keccak(800, 512, b'\x48', 5, 512)).hex().upper() == 'BF4D7E53D63D9FEB016FCD2FE2F38DEB3A1435FE40C226C495C28820F82BE568B7ABC7FF750571B23E714B66BD1DFA4B0D0E23856D40875C6E5BE50831F6BB35'
    assert bytes(keccak(200, 40, bytes.fromhex('F219BD629820'), 43, 160)).hex().upper() == 'C8F9476DBF0B0FE01F80629FD5689097AAAC6732'
    print('  refs.keccak ok: %d digests cross-checked (hashlib sha3_*/shake_*, Keccak KATs for b=800 and b=200 with bit lengths)' % (n + 2))


if __name__ == '__main__':
    selftest()
