"""Reference BLAKE-224/256/384/512 (SHA-3 submission, final round tweak: 14/16 rounds) and BLAKE2b/BLAKE2s (RFC 7693)
over plain integer operators (run on ints and on symbolic values).  The BLAKE constants are the hex digits of pi,
computed here with Machin's formula; IVs come from refs.mdsha (square roots of primes)."""
from refs import mdsha
from refs import padding as RP

SIGMA = [
    [0, 1, 2, 3, 4, 5, 6, 7, 8, 9, 10, 11, 12, 13, 14, 15],
    [14, 10, 4, 8, 9, 15, 13, 6, 1, 12, 0, 2, 11, 7, 5, 3],
    [11, 8, 12, 0, 5, 2, 15, 13, 10, 14, 3, 6, 7, 1, 9, 4],
    [7, 9, 3, 1, 13, 12, 11, 14, 2, 6, 5, 10, 4, 0, 15, 8],
    [9, 0, 5, 7, 2, 4, 10, 15, 14, 1, 11, 12, 6, 8, 3, 13],
    [2, 12, 6, 10, 0, 11, 8, 3, 4, 13, 7, 5, 15, 14, 1, 9],
    [12, 5, 1, 15, 14, 13, 4, 10, 0, 7, 6, 3, 9, 2, 8, 11],
    [13, 11, 7, 14, 12, 1, 3, 9, 5, 0, 15, 4, 8, 6, 2, 10],
    [6, 15, 14, 9, 11, 3, 0, 8, 12, 2, 13, 7, 1, 4, 10, 5],
    [10, 2, 8, 4, 7, 6, 1, 5, 15, 11, 9, 14, 3, 12, 13, 0],
]


def _arctan_inv(x, unity):
    "arctan(1/x) * unity, integer arithmetic"
    total = term = unity // x
    x2 = x * x
    n = 3
    sign = -1
    while term:
        term //= x2
        total += sign * (term // n)
        sign = -sign
        n += 2
    return total


def pi_frac_bits(nbits):
    "first nbits bits of the fractional part of pi"
    guard = 64
    unity = 1 << (nbits + guard)
    pi = 4 * (4 * _arctan_inv(5, unity) - _arctan_inv(239, unity))
    return (pi >> guard) & ((1 << nbits) - 1)


_PI = pi_frac_bits(1024)
C64 = [(_PI >> (64 * (15 - i))) & mdsha.M64 for i in range(16)]
C32 = [(_PI >> (1024 - 32 * (i + 1))) & mdsha.M32 for i in range(16)]


def rotr(x, n, w):
    return mdsha.rotr(x, n, w)


def blake_compress(h, m, s, t, w):
    "one BLAKE compression; t = (t0,t1) words"
    Mw = (1 << w) - 1
    c = C32 if w == 32 else C64
    rots = (16, 12, 8, 7) if w == 32 else (32, 25, 16, 11)
    rounds = 14 if w == 32 else 16
    v = list(h) + [s[0] ^ c[0], s[1] ^ c[1], s[2] ^ c[2], s[3] ^ c[3], t[0] ^ c[4], t[0] ^ c[5], t[1] ^ c[6], t[1] ^ c[7]]

    def G(r, i, a, b, cc, d):
        sg = SIGMA[r % 10]
        p, q = sg[2 * i], sg[2 * i + 1]
        v[a] = (v[a] + v[b] + (m[p] ^ c[q])) & Mw
        v[d] = rotr(v[d] ^ v[a], rots[0], w)
        v[cc] = (v[cc] + v[d]) & Mw
        v[b] = rotr(v[b] ^ v[cc], rots[1], w)
        v[a] = (v[a] + v[b] + (m[q] ^ c[p])) & Mw
        v[d] = rotr(v[d] ^ v[a], rots[2], w)
        v[cc] = (v[cc] + v[d]) & Mw
        v[b] = rotr(v[b] ^ v[cc], rots[3], w)
    for r in range(rounds):
        G(r, 0, 0, 4, 8, 12); G(r, 1, 1, 5, 9, 13); G(r, 2, 2, 6, 10, 14); G(r, 3, 3, 7, 11, 15)
        G(r, 4, 0, 5, 10, 15); G(r, 5, 1, 6, 11, 12); G(r, 6, 2, 7, 8, 13); G(r, 7, 3, 4, 9, 14)
    return [h[i] ^ s[i % 4] ^ v[i] ^ v[i + 8] for i in range(8)]


def blake(size, M, salt=0, L=None, H=None, base=0):
    """BLAKE-size digest (list of byte values) of the first L bits of M; salt: integer s0||s1||s2||s3 (s0 most significant word).
    H/base: continue from chaining value H after `base` message bits (a multiple of the block size) were hashed."""
    w = 32 if size <= 256 else 64
    B = 16 * w
    if L is None:
        L = 8 * len(M)
    iv = {224: mdsha.IV224, 256: mdsha.IV256, 384: mdsha.IV384, 512: mdsha.IV512}[size]
    h = list(H or iv)
    Mw = (1 << w) - 1
    s = [(salt >> (w * (3 - i))) & Mw for i in range(4)]
    padded, _ = RP.pad('Blakepadding', B, M, L, w, size, base)
    blks = RP.blocks(padded, B // 8)
    for i, b in enumerate(blks):
        t = RP.bitcnt_after(i, L, B)
        if i * B < L:
            t = t + base
        m = mdsha.words(b, w // 8, True)
        h = blake_compress(h, m, s, (t & Mw, (t >> w) & Mw), w)
    return mdsha.unwords(h, w // 8, True)[:size // 8]


# ---- BLAKE2 (RFC 7693) --------------------------------------------------------------------------------------
def blake2_compress(h, m, t, f, w, iv):
    Mw = (1 << w) - 1
    rots = (32, 24, 16, 63) if w == 64 else (16, 12, 8, 7)
    rounds = 12 if w == 64 else 10
    v = list(h) + list(iv)
    v[12] = v[12] ^ (t & Mw)
    v[13] = v[13] ^ ((t >> w) & Mw)
    v[14] = v[14] ^ f[0]
    v[15] = v[15] ^ f[1]

    def G(r, i, a, b, c, d):
        sg = SIGMA[r % 10]
        x, y = m[sg[2 * i]], m[sg[2 * i + 1]]
        v[a] = (v[a] + v[b] + x) & Mw
        v[d] = rotr(v[d] ^ v[a], rots[0], w)
        v[c] = (v[c] + v[d]) & Mw
        v[b] = rotr(v[b] ^ v[c], rots[1], w)
        v[a] = (v[a] + v[b] + y) & Mw
        v[d] = rotr(v[d] ^ v[a], rots[2], w)
        v[c] = (v[c] + v[d]) & Mw
        v[b] = rotr(v[b] ^ v[c], rots[3], w)
    for r in range(rounds):
        G(r, 0, 0, 4, 8, 12); G(r, 1, 1, 5, 9, 13); G(r, 2, 2, 6, 10, 14); G(r, 3, 3, 7, 11, 15)
        G(r, 4, 0, 5, 10, 15); G(r, 5, 1, 6, 11, 12); G(r, 6, 2, 7, 8, 13); G(r, 7, 3, 4, 9, 14)
    return [h[i] ^ v[i] ^ v[i + 8] for i in range(8)]


def blake2(size, M, outlen=None, salt=None, pers=None, keylen=0, fanout=1, depth=1, leafl=0, noffset=0, ndepth=0, inner=0, last_node=False, H=None, base=0):
    """BLAKE2b (size=512) / BLAKE2s (size=256) of byte list M with explicit parameter block (no key block handling:
    like crysp, a keyed hash is the caller prepending the padded key block and passing keylen)."""
    w = 64 if size == 512 else 32
    wb = w // 8
    Bb = 16 * wb
    if outlen is None:
        outlen = size // 8
    iv = mdsha.IV512 if size == 512 else mdsha.IV256
    salt = list(salt) if salt else [0] * (2 * wb)
    pers = list(pers) if pers else [0] * (2 * wb)
    assert len(salt) == 2 * wb and len(pers) == 2 * wb
    P = [outlen, keylen, fanout, depth]
    P += [(leafl >> (8 * i)) & 0xff for i in range(4)]
    if size == 512:
        P += [(noffset >> (8 * i)) & 0xff for i in range(8)]
        P += [ndepth, inner] + [0] * 14
    else:
        P += [(noffset >> (8 * i)) & 0xff for i in range(6)]
        P += [ndepth, inner]
    P += salt + pers
    pw = mdsha.words(P, wb, False)
    h = [a ^ b for a, b in zip(iv, pw)]
    if H is not None:
        h = list(H)          # continue from a chaining value after `base` bytes
    M = list(M)
    n = len(M)
    nblk = max(1, (n + Bb - 1) // Bb)
    Mw = (1 << w) - 1
    for i in range(nblk):
        blk = M[i * Bb:(i + 1) * Bb]
        last = i == nblk - 1
        t = base + (n if last else (i + 1) * Bb)
        blk = blk + [0] * (Bb - len(blk))
        f = (Mw if last else 0, Mw if (last and last_node) else 0)
        h = blake2_compress(h, mdsha.words(blk, wb, False), t, f, w, iv)
    return mdsha.unwords(h, wb, False)[:outlen]


def selftest():
    import hashlib, random
    assert C32[0] == 0x243F6A88 and C32[15] == 0xB5470917 and C64[0] == 0x243F6A8885A308D3 and C64[15] == 0x636920D871574E69
    n = 0
    # official BLAKE vectors (submission document)
    vec = [(224, 1, '4504CB0314FB2A4F7A692E696E487912FE3F2468FE312C73A5278EC5'),
           (224, 72, 'F5AA00DD1CB847E3140372AF7B5C46B4888D82C8C0A917913CFB5D04'),
           (256, 1, '0CE8D4EF4DD7CD8D62DFDED9D4EDB0A774AE6A41929A74DA23109E8F11139C87'),
           (256, 72, 'D419BAD32D504FB7D44D460C42C5593FE544FA4C135DEC31E21BD9ABDCC22D41'),
           (384, 1, '10281F67E135E90AE8E882251A355510A719367AD70227B137343E1BC122015C29391E8545B5272D13A7C2879DA3D807'),
           (384, 144, '0B9845DD429566CDAB772BA195D271EFFE2D0211F16991D766BA749447C5CDE569780B2DAA66C4B224A2EC2E5D09174C'),
           (512, 1, '97961587F6D970FABA6D2478045DE6D1FABD09B61AE50932054D52BC29D31BE4FF9102B9F69E2BBDB83BE13D4B9C06091E5FA0B48BD081B634058BE0EC49BEB3'),
           (512, 144, '313717D608E9CF758DCB1EB0F0C3CF9FC150B2D500FB33F51C52AFC99D358A2F1374B8A38BBA7974E7F6EF79CAB16F22CE1E649D6E01AD9589C213045D545DDE')]
    for size, ln, d in vec:
        assert bytes(blake(size, [0] * ln)).hex().upper() == d, (size, ln)
        n += 1
    rng = random.Random(7)
    for size, H in ((512, hashlib.blake2b), (256, hashlib.blake2s)):
        wb = 8 if size == 512 else 4
        for ln in list(range(0, 3 * 16 * wb + 3)) + [500, 777]:
            m = bytes(rng.getrandbits(8) for _ in range(ln))
            assert bytes(blake2(size, m)) == H(m).digest(), (size, ln)
            n += 1
        for k in range(60):
            ln = rng.randrange(0, 300)
            m = bytes(rng.getrandbits(8) for _ in range(ln))
            ol = rng.randrange(1, size // 8 + 1)
            salt = bytes(rng.getrandbits(8) for _ in range(2 * wb))
            pers = bytes(rng.getrandbits(8) for _ in range(2 * wb))
            kw = dict(fanout=rng.randrange(0, 256), depth=rng.randrange(1, 256), leaf_size=rng.getrandbits(32),
                      node_offset=rng.getrandbits(64 if size == 512 else 48), node_depth=rng.randrange(0, 256),
                      inner_size=rng.randrange(0, size // 8 + 1))
            want = H(m, digest_size=ol, salt=salt, person=pers, **kw).digest()
            got = blake2(size, m, ol, salt, pers, 0, kw['fanout'], kw['depth'], kw['leaf_size'], kw['node_offset'], kw['node_depth'], kw['inner_size'])
            assert bytes(got) == want, (size, ln, ol, kw)
            n += 1
    print('  refs.blake ok: %d digests cross-checked (8 official BLAKE vectors, hashlib.blake2b/2s with all parameters)' % n)


if __name__ == '__main__':
    selftest()
