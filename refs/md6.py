"""Reference MD6 (Rivest et al., specification of 2008-10-27): compression function, PAR (4-to-1 tree levels) and SEQ modes,
control words, final truncation.  Q = fractional part of sqrt(6), computed here."""
import math

M64 = (1 << 64) - 1
_q = math.isqrt(6 << (2 * 960)) & ((1 << 960) - 1)
Q = [(_q >> (64 * (14 - i))) & M64 for i in range(15)]
RS = [10, 5, 13, 10, 11, 12, 2, 7, 14, 15, 7, 13, 11, 7, 6, 12]
LS = [11, 24, 9, 16, 15, 9, 27, 15, 6, 2, 29, 8, 15, 5, 31, 9]
S0 = 0x0123456789abcdef
SMASK = 0x7311c2812425cfa0


def compress(N, rounds):
    "N: 89 words -> 16 words"
    n = 89
    t = 16 * rounds
    A = list(N)
    S = S0
    for j in range(rounds):
        for s in range(16):
            i = n + 16 * j + s
            x = S ^ A[i - n] ^ A[i - 17]
            x = x ^ (A[i - 18] & A[i - 21]) ^ (A[i - 31] & A[i - 67])
            x = x ^ (x >> RS[s])
            A.append(x ^ ((x << LS[s]) & M64))
        S = (((S << 1) | (S >> 63)) & M64) ^ (S & SMASK)
    return A[-16:]


def words_be(bs):
    return [int.from_bytes(bytes(bs[8 * i:8 * i + 8]), 'big') if all(isinstance(b, int) for b in bs[8 * i:8 * i + 8])
            else _w(bs[8 * i:8 * i + 8]) for i in range(len(bs) // 8)]


def _w(g):
    v = 0
    for b in g:
        v = (v << 8) | b
    return v


def bytes_be(ws):
    return [(w >> (8 * (7 - j))) & 0xff for w in ws for j in range(8)]


def control(r, L, z, p, keylen, d):
    return (r << 48) | (L << 40) | (z << 36) | (p << 20) | (keylen << 12) | d


def default_rounds(d, keylen):
    r = 40 + d // 4
    return max(80, r) if keylen else r


def md6(d, M, Lbits=None, key=b'', L=64, rounds=None):
    "digest bytes (ceil(d/8)) of the first Lbits bits of M"
    key = list(key)
    keylen = len(key)
    r = rounds if rounds is not None else default_rounds(d, keylen)
    K = words_be(key + [0] * (64 - keylen))
    if Lbits is None:
        Lbits = 8 * len(M)
    # message as bytes with the unused bits of the last byte cleared
    n, rem = divmod(Lbits, 8)
    data = list(M[:n]) + ([M[n] & ((0xff << (8 - rem)) & 0xff)] if rem else [])
    nbits = Lbits
    level = 0
    while True:
        level += 1
        if level == L + 1:
            return _seq(data, nbits, d, K, keylen, L, r)
        data, nbits, single = _par(level, data, nbits, d, K, keylen, L, r)
        if single:
            return _final(words_be(data), d)


def _final(C, d):
    "last d bits of the 1024-bit chaining value, as bytes (left aligned)"
    v = 0
    for w in C:
        v = (v << 64) | w
    v = v & ((1 << d) - 1)
    nb = (d + 7) // 8
    v = v << (8 * nb - d)
    return [(v >> (8 * (nb - 1 - i))) & 0xff for i in range(nb)]


def _par(level, data, nbits, d, K, keylen, L, r):
    Bb = 512                       # 64 words
    nblk = max(1, (len(data) + Bb - 1) // Bb)
    out = []
    for i in range(nblk):
        blk = data[i * Bb:(i + 1) * Bb]
        have = max(0, min(nbits - 8 * Bb * i, 8 * Bb))
        p = 8 * Bb - have
        blk = blk + [0] * (Bb - len(blk))
        z = 1 if nblk == 1 else 0
        U = (level << 56) + i
        V = control(r, L, z, p, keylen, d)
        out += compress(Q + K + [U, V] + words_be(blk), r)
    return bytes_be(out), 1024 * nblk, nblk == 1


def _seq(data, nbits, d, K, keylen, L, r):
    Bb = 384                       # 48 words
    nblk = max(1, (len(data) + Bb - 1) // Bb)
    C = [0] * 16
    for i in range(nblk):
        blk = data[i * Bb:(i + 1) * Bb]
        have = max(0, min(nbits - 8 * Bb * i, 8 * Bb))
        p = 8 * Bb - have
        blk = blk + [0] * (Bb - len(blk))
        z = 1 if i == nblk - 1 else 0
        U = ((L + 1) << 56) + i
        V = control(r, L, z, p, keylen, d)
        C = compress(Q + K + [U, V] + C + words_be(blk), r)
    return _final(C, d)


def selftest():
    assert Q[0] == 0x7311c2812425cfa0 and Q[14] == 0x0d6f3522631effcb
    assert bytes(md6(256, b'abc', rounds=5)).hex() == '8854c14dc284f840ed71ad7ba542855ce189633e48c797a55121a746be48cec8'
    m = (bytes.fromhex('11223344556677') * 86)[:600]
    assert bytes(md6(224, m, key=b'abcde12345', rounds=5)).hex() == '894cf0598ad3288ed4bb5ac5df23eba0ac388a11b7ed2e3dd5ec5131'
    m = (bytes.fromhex('11223344556677') * 115)[:800]
    assert bytes(md6(256, m, L=0)).hex() == '4e78ab5ec8926a3db0dcfa09ed48de6c33a7399e70f01ebfc02abb52767594e2'
    # well-known full-round digests
    assert bytes(md6(256, b'')).hex() == 'bca38b24a804aa37d821d31af00f5598230122c5bbfc4c4ad5ed40e4258f04ca'
    assert bytes(md6(128, b'')).hex() == '032f75b3ca02a393196a818328bd32e8'
    assert bytes(md6(512, b'')).hex() == '6b7f33821a2c060ecdd81aefddea2fd3c4720270e18654f4cb08ece49ccb469f8beeee7c831206bd577f9f2630d9177979203a9489e47e04df4e6deaa0f8e0c0'
    print('  refs.md6 ok: 3 sample computations of the specification (tree, keyed 2-level, sequential) + MD6-128/256/512 of the empty string')


if __name__ == '__main__':
    selftest()
