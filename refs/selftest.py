"""setup: validate every reference model against independent oracles (hashlib/hmac/zlib, published vectors)."""
import importlib, sys
MODS = ['refs.mdsha', 'refs.padding', 'refs.blake', 'refs.keccak', 'refs.ciphers', 'refs.stream', 'refs.skein', 'refs.md6']


def main():
    ok = True
    for m in MODS:
        try:
            importlib.import_module(m).selftest()
        except Exception as e:
            ok = False
            print('REFERENCE MODEL SELFTEST FAILED: %s: %r' % (m, e))
    return 0 if ok else 1


if __name__ == '__main__':
    sys.exit(main())
