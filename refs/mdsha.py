"""Reference models of MD4 (RFC 1320), MD5 (RFC 1321), SHA-0/SHA-1 and the SHA-2 family (FIPS 180-4), written
from the standards over plain integer operators, so that they run on Python ints (oracle for replay) and on
symbolic SymInts (obligations).  Messages are bit-granular: (list of byte values, bit length L).
Constants are *computed* (cube/square roots of primes, |sin|), not copied from crysp.
Non-linear leaf functions are taken from a `leaves` object so that a check can swap in uninterpreted functions."""
import math


def primes(n):
    ps = []
    c = 2
    while len(ps) < n:
        if all(c % p for p in ps):
            ps.append(c)
        c += 1
    return ps


def iroot(x, k):
    "floor of the k-th root of integer x"
    if x < 2:
        return x
    r = 1 << ((x.bit_length() + k - 1) // k)
    while True:
        y = ((k - 1) * r + x // r ** (k - 1)) // k
        if y >= r:
            break
        r = y
    while r ** k > x:
        r -= 1
    while (r + 1) ** k <= x:
        r += 1
    return r


def frac_root(p, k, bits):
    "first `bits` bits of the fractional part of the k-th root of p"
    return iroot(p << (k * bits), k) & ((1 << bits) - 1)


M32 = (1 << 32) - 1
M64 = (1 << 64) - 1


class StdLeaves(object):
    "the standards' own formulas"
    @staticmethod
    def ch(x, y, z, w):
        m = (1 << w) - 1
        return (x & y) ^ ((x ^ m) & z)

    @staticmethod
    def maj(x, y, z, w):
        return (x & y) ^ (x & z) ^ (y & z)

    @staticmethod
    def md_f(x, y, z, w=32):          # RFC 1320/1321 F
        return (x & y) | ((x ^ M32) & z)

    @staticmethod
    def md4_g(x, y, z, w=32):         # RFC 1320 G
        return (x & y) | (x & z) | (y & z)

    @staticmethod
    def md5_g(x, y, z, w=32):         # RFC 1321 G
        return (x & z) | (y & (z ^ M32))

    @staticmethod
    def md5_i(x, y, z, w=32):         # RFC 1321 I
        return y ^ (x | (z ^ M32))


def rotl(x, n, w):
    n %= w
    if n == 0:
        return x
    return ((x << n) | (x >> (w - n))) & ((1 << w) - 1)


def rotr(x, n, w):
    return rotl(x, w - (n % w), w)


def pad_bits(M, L, block, lenbytes, bigend):
    """M: sequence of byte values, L: message bit length (first L bits, MSB-first within bytes).
    returns the padded message as a list of byte values"""
    nfull, r = divmod(L, 8)
    out = list(M[:nfull])
    if r:
        b = M[nfull]
        out.append((b & ((0xff << (8 - r)) & 0xff)) | (0x80 >> r))
    else:
        out.append(0x80)
    while (len(out) + lenbytes) % (block // 8) != 0:
        out.append(0)
    lb = [(L >> (8 * i)) & 0xff for i in range(lenbytes)]
    if bigend:
        lb.reverse()
    return out + lb


def words(bs, wbytes, bigend):
    out = []
    for i in range(0, len(bs), wbytes):
        g = bs[i:i + wbytes]
        if not bigend:
            g = g[::-1]
        v = 0
        for b in g:
            v = (v << 8) | b
        out.append(v)
    return out


def unwords(ws, wbytes, bigend):
    out = []
    for w in ws:
        bs = [(w >> (8 * i)) & 0xff for i in range(wbytes)]
        if bigend:
            bs.reverse()
        out.extend(bs)
    return out


# ---- MD4 / MD5 ------------------------------------------------------------------------------------------
MD_IV = [0x67452301, 0xefcdab89, 0x98badcfe, 0x10325476]


def md4(M, L=None, leaves=StdLeaves, H=None):
    if L is None:
        L = 8 * len(M)
    H = list(H or MD_IV)
    p = pad_bits(M, L, 512, 8, False)
    for k in range(0, len(p), 64):
        X = words(p[k:k + 64], 4, False)
        a, b, c, d = H

        def r1(a, b, c, d, k, s): return rotl((a + leaves.md_f(b, c, d) + X[k]) & M32, s, 32)
        def r2(a, b, c, d, k, s): return rotl((a + leaves.md4_g(b, c, d) + X[k] + 0x5a827999) & M32, s, 32)
        def r3(a, b, c, d, k, s): return rotl((a + (b ^ c ^ d) + X[k] + 0x6ed9eba1) & M32, s, 32)
        for i in range(0, 16, 4):
            a = r1(a, b, c, d, i, 3); d = r1(d, a, b, c, i + 1, 7); c = r1(c, d, a, b, i + 2, 11); b = r1(b, c, d, a, i + 3, 19)
        for i in range(4):
            a = r2(a, b, c, d, i, 3); d = r2(d, a, b, c, i + 4, 5); c = r2(c, d, a, b, i + 8, 9); b = r2(b, c, d, a, i + 12, 13)
        for i in (0, 2, 1, 3):
            a = r3(a, b, c, d, i, 3); d = r3(d, a, b, c, i + 8, 9); c = r3(c, d, a, b, i + 4, 11); b = r3(b, c, d, a, i + 12, 15)
        H = [(x + y) & M32 for x, y in zip(H, (a, b, c, d))]
    return unwords(H, 4, False)


MD5_T = [int(math.floor(4294967296 * abs(math.sin(i + 1)))) for i in range(64)]
MD5_S = [(7, 12, 17, 22), (5, 9, 14, 20), (4, 11, 16, 23), (6, 10, 15, 21)]


def md5(M, L=None, leaves=StdLeaves, H=None):
    if L is None:
        L = 8 * len(M)
    H = list(H or MD_IV)
    p = pad_bits(M, L, 512, 8, False)
    fs = [leaves.md_f, leaves.md5_g, lambda x, y, z: x ^ y ^ z, leaves.md5_i]
    for k in range(0, len(p), 64):
        X = words(p[k:k + 64], 4, False)
        a, b, c, d = H
        for i in range(64):
            r = i // 16
            g = [i, (5 * i + 1) % 16, (3 * i + 5) % 16, (7 * i) % 16][r]
            t = (a + fs[r](b, c, d) + X[g] + MD5_T[i]) & M32
            a, d, c, b = d, c, b, (b + rotl(t, MD5_S[r][i % 4], 32)) & M32
        H = [(x + y) & M32 for x, y in zip(H, (a, b, c, d))]
    return unwords(H, 4, False)


# ---- SHA-0 / SHA-1 ----------------------------------------------------------------------------------------
SHA1_IV = MD_IV + [0xc3d2e1f0]
SHA1_K = [iroot(2 << 60, 2), iroot(3 << 60, 2), iroot(5 << 60, 2), iroot(10 << 60, 2)]     # 2^30 * sqrt(2,3,5,10)


def sha1(M, L=None, leaves=StdLeaves, H=None, version=1):
    if L is None:
        L = 8 * len(M)
    H = list(H or SHA1_IV)
    p = pad_bits(M, L, 512, 8, True)
    for k in range(0, len(p), 64):
        W = words(p[k:k + 64], 4, True)
        for t in range(16, 80):
            x = W[t - 3] ^ W[t - 8] ^ W[t - 14] ^ W[t - 16]
            W.append(rotl(x, 1, 32) if version == 1 else x)
        a, b, c, d, e = H
        for t in range(80):
            if t < 20: f = leaves.ch(b, c, d, 32)
            elif t < 40: f = b ^ c ^ d
            elif t < 60: f = leaves.maj(b, c, d, 32)
            else: f = b ^ c ^ d
            T = (rotl(a, 5, 32) + f + e + SHA1_K[t // 20] + W[t]) & M32
            e, d, c, b, a = d, c, rotl(b, 30, 32), a, T
        H = [(x + y) & M32 for x, y in zip(H, (a, b, c, d, e))]
    return unwords(H, 4, True)


# ---- SHA-2 ----------------------------------------------------------------------------------------------------
_P80 = primes(80)
K256 = [frac_root(p, 3, 32) for p in _P80[:64]]
K512 = [frac_root(p, 3, 64) for p in _P80]
IV256 = [frac_root(p, 2, 32) for p in _P80[:8]]
IV512 = [frac_root(p, 2, 64) for p in _P80[:8]]
IV384 = [frac_root(p, 2, 64) for p in _P80[8:16]]
IV224 = [x & M32 for x in IV384]


def _sha2_compress(H, W, w, leaves):
    if w == 32:
        K, N = K256, 64
        S0 = lambda x: rotr(x, 2, w) ^ rotr(x, 13, w) ^ rotr(x, 22, w)
        S1 = lambda x: rotr(x, 6, w) ^ rotr(x, 11, w) ^ rotr(x, 25, w)
        s0 = lambda x: rotr(x, 7, w) ^ rotr(x, 18, w) ^ (x >> 3)
        s1 = lambda x: rotr(x, 17, w) ^ rotr(x, 19, w) ^ (x >> 10)
    else:
        K, N = K512, 80
        S0 = lambda x: rotr(x, 28, w) ^ rotr(x, 34, w) ^ rotr(x, 39, w)
        S1 = lambda x: rotr(x, 14, w) ^ rotr(x, 18, w) ^ rotr(x, 41, w)
        s0 = lambda x: rotr(x, 1, w) ^ rotr(x, 8, w) ^ (x >> 7)
        s1 = lambda x: rotr(x, 19, w) ^ rotr(x, 61, w) ^ (x >> 6)
    Mw = (1 << w) - 1
    W = list(W)
    for t in range(16, N):
        W.append((s1(W[t - 2]) + W[t - 7] + s0(W[t - 15]) + W[t - 16]) & Mw)
    a, b, c, d, e, f, g, h = H
    for t in range(N):
        T1 = (h + S1(e) + leaves.ch(e, f, g, w) + K[t] + W[t]) & Mw
        T2 = (S0(a) + leaves.maj(a, b, c, w)) & Mw
        h, g, f, e, d, c, b, a = g, f, e, (d + T1) & Mw, c, b, a, (T1 + T2) & Mw
    return [(x + y) & Mw for x, y in zip(H, (a, b, c, d, e, f, g, h))]


_IVT = {}


def iv512t(t):
    "FIPS 180-4 section 5.3.6: SHA-512/t IV generation function"
    if t not in _IVT:
        H0 = [x ^ 0xa5a5a5a5a5a5a5a5 for x in IV512]
        d = _sha2(list(b'SHA-512/%d' % t), None, 64, H0, 64, StdLeaves)
        _IVT[t] = words(d, 8, True)
    return _IVT[t]


def _sha2(M, L, w, IV, outlen, leaves):
    if L is None:
        L = 8 * len(M)
    H = list(IV)
    wb = w // 8
    p = pad_bits(M, L, 16 * w, 2 * wb, True)
    for k in range(0, len(p), 16 * wb):
        H = _sha2_compress(H, words(p[k:k + 16 * wb], wb, True), w, leaves)
    return unwords(H, wb, True)[:outlen]


def sha2(M, L=None, size=256, t=0, leaves=StdLeaves, H=None):
    if size == 224: return _sha2(M, L, 32, H or IV224, 28, leaves)
    if size == 256: return _sha2(M, L, 32, H or IV256, 32, leaves)
    if size == 384: return _sha2(M, L, 64, H or IV384, 48, leaves)
    if size == 512 and t == 0: return _sha2(M, L, 64, H or IV512, 64, leaves)
    if size == 512 and t in (224, 256): return _sha2(M, L, 64, H or iv512t(t), t // 8, leaves)
    raise ValueError((size, t))


ALGOS = ['md4', 'md5', 'sha0', 'sha1', 'sha224', 'sha256', 'sha384', 'sha512', 'sha512_224', 'sha512_256']
BLOCK = dict(md4=64, md5=64, sha0=64, sha1=64, sha224=64, sha256=64, sha384=128, sha512=128, sha512_224=128, sha512_256=128)
DIGEST = dict(md4=16, md5=16, sha0=20, sha1=20, sha224=28, sha256=32, sha384=48, sha512=64, sha512_224=28, sha512_256=32)
WBYTES = dict(md4=4, md5=4, sha0=4, sha1=4, sha224=4, sha256=4, sha384=8, sha512=8, sha512_224=8, sha512_256=8)


def digest(algo, M, L=None, leaves=StdLeaves, H=None):
    "list of digest byte values"
    if algo == 'md4': return md4(M, L, leaves, H)
    if algo == 'md5': return md5(M, L, leaves, H)
    if algo == 'sha0': return sha1(M, L, leaves, H, 0)
    if algo == 'sha1': return sha1(M, L, leaves, H, 1)
    size, t = {'sha224': (224, 0), 'sha256': (256, 0), 'sha384': (384, 0), 'sha512': (512, 0),
               'sha512_224': (512, 224), 'sha512_256': (512, 256)}[algo]
    return sha2(M, L, size, t, leaves, H)


def selftest():
    import hashlib, random
    rng = random.Random(1)
    n = 0
    for algo in ('md5', 'sha1', 'sha224', 'sha256', 'sha384', 'sha512', 'sha512_224', 'sha512_256'):
        try:
            hashlib.new(algo, b'')
        except Exception:
            print('  hashlib lacks', algo)
            continue
        lens = list(range(0, 2 * BLOCK[algo] + 20)) + [300, 511, 512, 513]
        for ln in lens:
            m = bytes(rng.getrandbits(8) for _ in range(ln))
            assert bytes(digest(algo, m)) == hashlib.new(algo, m).digest(), (algo, ln)
            n += 1
    # RFC 1320 test suite
    for m, d in [(b'', '31d6cfe0d16ae931b73c59d7e0c089c0'), (b'a', 'bde52cb31de33e46245e05fbdbd6fb24'),
                 (b'abc', 'a448017aaf21d8525fc10ae87aa6729d'), (b'message digest', 'd9130a8164549fe818874806e1c7014b'),
                 (b'abcdefghijklmnopqrstuvwxyz', 'd79e1c308aa5bbcdeea8ed63df412da9'),
                 (b'ABCDEFGHIJKLMNOPQRSTUVWXYZabcdefghijklmnopqrstuvwxyz0123456789', '043f8582f241db351ce627e153e7f0e4'),
                 (b'1234567890' * 8, 'e33b4ddc9c38f2199c3e7b164fcc0536')]:
        assert bytes(md4(m)).hex() == d, m
        n += 1
    # SHA-0 "abc" (FIPS 180, 1993)
    assert bytes(sha1(b'abc', version=0)).hex() == '0164b8a914cd2a5e74c4f7ff082c4d97f1edf880'
    # bit-granular: NIST SHAVS-style examples (SHA-1 of the 5-bit message 0x98>>3 = '10011')
    assert bytes(sha1([0x98], 5)).hex() == '29826b003b906e660eff4027ce98af3531ac75ba'
    assert bytes(sha2([0x68], 5, 256)).hex() == 'd6d3e02a31a84a8caa9718ed6c2057be09db45e7823eb5079ce7a573a3760f95'
    assert bytes(sha2([0xb0], 5, 512)).hex() == 'd4ee29a9e90985446b913cf1d1376c836f4be2c1cf3cada0720a6bf4857d886a7ecb3c4e4c0fa8c7f95214e41dc1b0d21b22a84cc03bf8ce4845f34dd5bdbad4'
    assert SHA1_K == [0x5a827999, 0x6ed9eba1, 0x8f1bbcdc, 0xca62c1d6]
    assert K256[0] == 0x428a2f98 and K512[79] == 0x6c44198c4a475817 and IV224[0] == 0xc1059ed8
    assert iv512t(256)[0] == 0x22312194FC2BF72C and iv512t(224)[7] == 0x1112E6AD91D692A1
    print('  refs.mdsha ok: %d digests cross-checked (hashlib, RFC 1320, FIPS 180 / SHAVS bit examples)' % n)


if __name__ == '__main__':
    selftest()
