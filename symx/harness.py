"""Check driver: runs Cases (props/common.py) symbolically, decides each obligation with z3, confirms every
counterexample concretely (in-process, then on the untouched /repo with /venv/bin/python), validates the
translation, matches known findings, writes evidence.  Exit codes: 0 held, 1 VIOLATION, 2 inconclusive/harness error."""
import os, sys, json, time, random, signal, hashlib, subprocess, traceback, contextlib, multiprocessing, builtins
import ctypes
import z3
from . import ir, core, loader
from .core import SymInt, SymBool, SymBytes, Leak
from props import common
from props.common import MustRaise, NoClaim

VERIF = os.path.dirname(os.path.dirname(os.path.abspath(__file__)))
PLAIN_PY = os.environ.get('VERIF_PLAIN_PY', '/venv/bin/python')


class JobTimeout(BaseException):
    pass


# ---- symbolic data source -----------------------------------------------------------------------------
class SymSrc(object):
    symbolic = True

    def __init__(self):
        self.assumptions = []
        self.vars = []

    def int(self, name, bits, lo=None, hi=None):
        if bits == 0:
            return 0
        v = SymInt.var(name, bits)
        self.vars.append((name, bits))
        if lo is not None and lo > 0:
            self.assumptions.append(v >= lo)
            v = SymInt(v.n, lo, v.hi)
        if hi is not None and hi < (1 << bits) - 1:
            self.assumptions.append(v <= hi)
            v = SymInt(v.n, v.lo, hi)
        return v

    def bytes(self, name, n):
        for i in range(n):
            self.vars.append(('%s_%d' % (name, i), 8))
        return SymBytes.var(name, n)

    def assume(self, c):
        if isinstance(c, bool):
            if not c:
                raise NoClaim('assumption false')
            return
        self.assumptions.append(c)


# ---- UF helpers -----------------------------------------------------------------------------------------
def uf_call(name, w, args, widths, concrete=None):
    """apply uninterpreted function `name` (result width w) to ints/SymInts; if every argument is concrete and a
    concrete interpretation is known, fold"""
    if concrete is not None and all(isinstance(a, builtins.int) for a in args):
        return concrete(*args) & ((1 << w) - 1)
    ns = [core.to_n(a, ww) for a, ww in zip(args, widths)]
    return core.from_n(ir.uf(w, name, ns))


@contextlib.contextmanager
def patched(patches):
    "patches: list of (object, attribute name, new value)"
    saved = []
    try:
        for o, a, v in patches:
            saved.append((o, a, o.__dict__[a] if hasattr(o, '__dict__') and a in o.__dict__ else getattr(o, a)))
            setattr(o, a, v)
        yield
    finally:
        for o, a, v in reversed(saved):
            setattr(o, a, v)


# ---- outcomes -------------------------------------------------------------------------------------------
def sym_outcome(fn, *a):
    try:
        return ('ok', fn(*a))
    except MustRaise as e:
        return ('reject',) + tuple(e.args[:1])
    except NoClaim:
        return ('noclaim',)
    except Leak:
        raise
    except (RecursionError, MemoryError, z3.Z3Exception, ctypes.ArgumentError) as e:
        raise Leak('engine-internal %s: %s' % (type(e).__name__, str(e)[:100]))       # never an outcome of the code under test
    except Exception as e:
        return ('exc', type(e).__name__, str(e)[:120])


def eq_node(a, b):
    "structural equality of two result values as a 1-bit node"
    T, F = ir.const(1, 1), ir.const(1, 0)
    if isinstance(a, SymBool): a = SymInt.lift(a)
    if isinstance(b, SymBool): b = SymInt.lift(b)
    if a is None or b is None:
        return T if (a is None and b is None) else F
    if isinstance(a, str) or isinstance(b, str):
        return T if (isinstance(a, str) and isinstance(b, str) and a == b) else F
    ia = isinstance(a, (builtins.int, SymInt))
    ib = isinstance(b, (builtins.int, SymInt))
    if ia or ib:
        if not (ia and ib):
            return F
        if isinstance(a, SymInt) and isinstance(b, SymInt) and a.n is not b.n and not a.signed and not b.signed and a.w == b.w:
            # GF(2)-linear wiring (xor / shifts / masks) is put in bit-level normal form before the solver sees it
            na, nb = ir.gf2_canon(a.n), ir.gf2_canon(b.n)
            return ir.cmp('eq', na, nb)
        return core.bnode(a == b)
    ba = isinstance(a, (builtins.bytes, bytearray, SymBytes))
    bb = isinstance(b, (builtins.bytes, bytearray, SymBytes))
    if ba or bb:
        if not (ba and bb) or len(a) != len(b):
            return F
        r = T
        for x, y in zip(a, b):
            r = ir.band(r, core.bnode(x == y))
        return r
    if isinstance(a, (list, tuple)) and isinstance(b, (list, tuple)):
        if len(a) != len(b):
            return F
        r = T
        for x, y in zip(a, b):
            r = ir.band(r, eq_node(x, y))
        return r
    if isinstance(a, dict) and isinstance(b, dict):
        if set(a) != set(b):
            return F
        r = T
        for k in a:
            r = ir.band(r, eq_node(a[k], b[k]))
        return r
    raise Leak('cannot compare results of types %s / %s' % (type(a).__name__, type(b).__name__))


def agree_node(io, so):
    "1-bit node: implementation outcome satisfies the spec outcome; None = oracle failed"
    if so[0] == 'noclaim':
        return ir.const(1, 1)
    if so[0] == 'reject':
        if len(so) > 1:
            return ir.const(1, 1 if (io[0] == 'exc' and io[1] == so[1]) else 0)
        return ir.const(1, 1 if io[0] == 'exc' else 0)
    if so[0] == 'exc':
        return None
    if io[0] != 'ok':
        return ir.const(1, 0)
    return eq_node(io[1], so[1])


def value_nodes(v, acc):
    if isinstance(v, SymInt):
        acc.append(v.n)
    elif isinstance(v, SymBool):
        acc.append(v.n)
    elif isinstance(v, SymBytes):
        for x in v:
            if isinstance(x, SymInt):
                acc.append(x.n)
    elif isinstance(v, (list, tuple)):
        for x in v:
            value_nodes(x, acc)
    elif isinstance(v, dict):
        for x in v.values():
            value_nodes(x, acc)


def conc_value(v, vals):
    "instantiate a symbolic result under evaluated node values"
    if isinstance(v, SymInt):
        x = vals[v.n.id]
        if v.signed and x >> (v.n.w - 1):
            x -= 1 << v.n.w
        return x
    if isinstance(v, SymBool):
        return bool(vals[v.n.id])
    if isinstance(v, SymBytes):
        return builtins.bytes([vals[x.n.id] if isinstance(x, SymInt) else x for x in v])
    if isinstance(v, (list, tuple)):
        return [conc_value(x, vals) for x in v]
    if isinstance(v, dict):
        return {k: conc_value(x, vals) for k, x in v.items()}
    return v


def model_env(model, vars_):
    env = {}
    for name, bits in vars_:
        zv = model.eval(z3.BitVec(name, bits), model_completion=True)
        env[name] = zv.as_long()
    return env


def observable(io, so):
    if io[0] == 'exc':
        return 'exc:' + io[1]
    if so[0] == 'reject':
        return 'accepted'
    return 'mismatch'


SECOND_PER_SHAPE = int(os.environ.get('VERIF_SECOND', '1') or 0)
_CVC5 = [None]


def second_solver(s, goal):
    """cross-check of a discharged obligation whose two sides were NOT identical terms: the same query (path condition and negated
    goal, as SMT-LIB text) is given to cvc5 with a 10 s limit.  'unsat' = agreement; 'sat' = disagreement (the shape is then
    inconclusive); anything else = no second opinion."""
    import shutil, tempfile
    if _CVC5[0] is None:
        _CVC5[0] = shutil.which('cvc5') or ''
    if not _CVC5[0]:
        return 'no-cvc5'
    s.push()
    s.add(z3.Not(ir.lower_bool(goal)))
    try:
        text = s.to_smt2()
    except Exception:
        s.pop()
        return 'no-text'
    s.pop()
    if 'ext_rotate' in text:
        return 'no-text'
    fd, path = tempfile.mkstemp(suffix='.smt2')
    try:
        with os.fdopen(fd, 'w') as f:
            f.write('(set-logic QF_UFBV)\n' + text)
        try:
            out = subprocess.run([_CVC5[0], '--tlimit=10000', path], stdout=subprocess.PIPE, stderr=subprocess.STDOUT, timeout=30).stdout.decode()
        except subprocess.TimeoutExpired:
            return 'timeout'
    finally:
        os.unlink(path)
    ans = [l.strip() for l in out.splitlines() if l.strip()]
    for l in ans:
        if l in ('unsat', 'sat'):
            return l
    return 'timeout' if any('interrupted' in l or 'timeout' in l.lower() for l in ans) else 'other:' + (ans[0][:60] if ans else '')


def checked(s, timeout_ms, vars_=(), size=0):
    """Solver.check().  Returns (status, env or None).  z3's own timeout is not honoured inside some preprocessing steps
    on very large terms, so large queries run in a forked child that the parent can kill (threads are not an option:
    z3's python wrappers are not thread safe)."""
    if size < FORK_THRESHOLD:
        try:
            r = str(s.check())
        except z3.Z3Exception:
            return 'unknown', None
        return r, (model_env(s.model(), vars_) if r == 'sat' else None)
    import select
    rd, wr = os.pipe()
    pid = os.fork()
    if pid == 0:
        try:
            _die_with_parent()
            os.close(rd)
            signal.setitimer(signal.ITIMER_REAL, 0)
            try:
                r = str(s.check())
                env = model_env(s.model(), vars_) if r == 'sat' else None
            except BaseException:
                r, env = 'unknown', None
            os.write(wr, json.dumps([r, env]).encode())
        finally:
            os._exit(0)
    os.close(wr)
    buf = b''
    deadline = time.time() + timeout_ms / 1000.0 + 10
    try:
        while True:
            left = deadline - time.time()
            if left <= 0:
                break
            ready, _, _ = select.select([rd], [], [], left)
            if not ready:
                break
            chunk = os.read(rd, 1 << 16)
            if not chunk:
                break
            buf += chunk
    finally:
        os.close(rd)
        try:
            os.kill(pid, signal.SIGKILL)
        except OSError:
            pass
        try:
            os.waitpid(pid, 0)
        except OSError:
            pass
    if not buf:
        return 'unknown', None
    try:
        r, env = json.loads(buf.decode())
    except ValueError:
        return 'unknown', None
    return r, env


FORK_THRESHOLD = 4000


# ---- one shape ------------------------------------------------------------------------------------------
def concrete_check(case, shape, env=None, rng=None):
    "run impl and spec concretely in this process (instrumented modules, no stubs). returns (agree, io, so, env_used)"
    src = common.ConcSrc(env=env, rng=rng)
    case.symbolic = False
    try:
        args = case.mk(shape, src)
    except NoClaim:
        return True, ('noclaim',), ('noclaim',), src.used
    io = common.outcome(case.impl, shape, args)
    so = common.outcome(case.spec, shape, args)
    return common.agree(io, so), io, so, src.used


def run_shape(case, shape, tier, seed):
    t0 = time.time()
    res = dict(case=case.name, prop=case.prop, kind=case.kind, shape=shape, status='pass', obligations=0, discharged=0,
               identical=0, paths=0, forks=0, branch_checks=0, solver_s=0.0, nvars=0, candidates=[], validations=[],
               samples=[], reason=None, queries=0, second=[])
    ir.reset()
    core.CTX.nchecks = core.CTX.nforks = 0
    core.CTX.solver_time = 0.0
    core.CTX.timeout_ms = case.solver_timeout_ms
    src = SymSrc()
    rng = random.Random(hashlib.sha256(('%s|%s|%s' % (seed, case.name, json.dumps(shape, sort_keys=True))).encode()).digest())

    def alarm(sig, frm):
        raise JobTimeout()
    signal.signal(signal.SIGALRM, alarm)
    signal.setitimer(signal.ITIMER_REAL, case.timeout_s * (4 if tier == 'thorough' else 1))
    try:
        case.symbolic = True
        try:
            args = case.mk(shape, src)
        except NoClaim:
            res['status'] = 'noclaim'
            return res
        res['nvars'] = len(src.vars)
        def body():
            io = sym_outcome(case.impl, shape, args)
            so = sym_outcome(case.spec, shape, args)
            return io, so

        def scout(chunk):
            """bug finding before proving: evaluate every path's goal under a model of its path condition and move the paths
            refuted that way to the front (they are then confirmed concretely by the main loop); nothing is discharged here"""
            front, back = [], []
            for p in chunk:
                hit = False
                try:
                    io, so = p.value
                    goal = agree_node(io, so)
                    if goal is not None and p.pc and not ir.isc(goal):
                        s = z3.Solver()
                        s.set('timeout', min(case.solver_timeout_ms, 10000))
                        for c in p.pc:
                            s.add(ir.lower_bool(c))
                        rr, env = checked(s, min(case.solver_timeout_ms, 10000), src.vars, len(ir.reachable(list(p.pc))))
                        res['queries'] += 1
                        if rr == 'sat' and ir.eval1(goal, env, case.uf_concrete) == 0:
                            hit = True
                    elif goal is not None and ir.isc(goal) and goal.a == 0:
                        hit = True
                except (KeyError, z3.Z3Exception):
                    pass
                (front if hit else back).append(p)
            return front + back

        def lazy_paths():
            """paths are explored in growing chunks (stubs active, case in symbolic mode) and handed out one by one (stubs off,
            concrete mode) so that a shape stops at its first reproduced counterexample instead of enumerating every path"""
            gen = core.explore_iter(body, assumptions=src.assumptions, max_paths=case.max_paths if hasattr(case, 'max_paths') else 4000)
            n = 4
            try:
                while True:
                    chunk = []
                    case.symbolic = True
                    try:
                        with (case.stubs(shape) or contextlib.nullcontext()):
                            for p in gen:
                                chunk.append(p)
                                if len(chunk) >= n:
                                    break
                    finally:
                        case.symbolic = False
                        res['forks'] = core.CTX.nforks
                        res['branch_checks'] = core.CTX.nchecks
                    if not chunk:
                        return
                    res['paths'] += len(chunk)
                    if len(chunk) > 1:
                        chunk = scout(chunk)
                    for p in chunk:
                        yield p
                    n *= 4
            finally:
                gen.close()
                case.symbolic = False
        paths = lazy_paths()
        nval = 0
        for pi, p in enumerate(paths):
            io, so = p.value
            res['obligations'] += 1
            goal = agree_node(io, so)
            if goal is None:
                res['status'] = 'inconclusive'
                res['reason'] = 'oracle raised %s' % (so[1:],)
                continue
            s = z3.Solver()
            s.set('timeout', case.solver_timeout_ms)
            for c in p.pc:
                s.add(ir.lower_bool(c))
            # reachability twin: the path condition itself must be satisfiable (else the obligation is vacuous)
            gsize = len(ir.reachable([goal] + list(p.pc)))
            pc_env = None
            if p.pc:
                rr, pc_env = checked(s, case.solver_timeout_ms, src.vars, gsize)
                res['queries'] += 1
                if rr != 'sat':
                    res['status'] = 'inconclusive'
                    res['reason'] = 'vacuous: path condition %s' % rr
                    continue
            tq = time.time()
            menv = None
            r = None
            # cheap refutation first: evaluate the goal under a few assignments (a concrete, replayed counterexample is a
            # definitive refutation; only the solver's unsat can discharge the obligation)
            pre_env = None
            if not ir.isc(goal):
                for k in range(4 if not p.pc else 1):
                    env = dict((name, rng.getrandbits(bits) if k else 0) for name, bits in src.vars) if not p.pc else pc_env
                    try:
                        if ir.eval1(goal, env, case.uf_concrete) == 0:
                            pre_env = env
                            break
                    except KeyError:
                        break
            if pre_env is not None:
                r = 'refuted-by-evaluation'
            else:
                s.push()
                s.add(z3.Not(ir.lower_bool(goal)))
                r, menv = checked(s, case.solver_timeout_ms, src.vars, gsize)
                res['queries'] += 1
                s.pop()
            dt = time.time() - tq
            res['solver_s'] += dt
            if len(res['samples']) < 3:
                res['samples'].append({'obligation': '%s path %d/%d: impl %s must satisfy spec %s' % (
                    case.describe(shape), pi + 1, res['paths'], _odesc(io), _odesc(so)),
                    'free_vars': len(src.vars), 'path_condition_atoms': len(p.pc), 'verdict': r,
                    'goal': 'syntactically identical terms' if ir.isc(goal) and goal.a == 1 else ir.describe(goal, 2),
                    'solver_s': round(dt, 4)})
            if r == 'unsat':
                res['discharged'] += 1
                if ir.isc(goal):
                    res['identical'] += 1
                elif len(res['second']) < SECOND_PER_SHAPE and gsize < 3000:
                    res['second'].append(second_solver(s, goal))
                # translator validation on a sample of paths
                if nval < case.nvalidate and io[0] == 'ok':
                    nval += 1
                    _validate(case, shape, src, p, io, rng, res)
                continue
            # sat or unknown -> look for a concrete, reproducible counterexample
            cands = []
            if pre_env is not None:
                cands.append(pre_env)
            if menv is not None:
                cands.append(menv)
            found = None
            for env in cands:
                ok, cio, cso, used = concrete_check(case, shape, env=env)
                if ok is False:
                    found = (used, cio, cso)
                    break
            if found is None:
                for k in range(case.nsearch if hasattr(case, 'nsearch') else 40):
                    ok, cio, cso, used = concrete_check(case, shape, rng=rng)
                    if ok is False:
                        found = (used, cio, cso)
                        break
            if found is not None:
                res['status'] = 'violation'
                res['candidates'].append(dict(env=found[0], impl=found[1], spec=found[2],
                                              observable=observable(found[1], found[2]), solver=r))
                break            # one witness per shape is enough
            if res['status'] == 'pass':
                res['status'] = 'inconclusive'
                res['reason'] = 'solver %s and no concrete counterexample reproduced (path %d)' % (r, pi)
        paths.close()
        if res['paths'] == 0:
            res['status'] = 'inconclusive'
            res['reason'] = 'vacuous: no feasible path (assumptions unsatisfiable?)'
    except JobTimeout:
        res['status'] = 'inconclusive'
        res['reason'] = 'shape budget of %ds exceeded' % case.timeout_s
    except Leak as e:
        # the engine could not model something: try to find out concretely whether this shape is simply broken
        case.symbolic = False
        res['status'] = 'inconclusive'
        res['reason'] = 'Leak: %s' % e
    except Exception as e:
        case.symbolic = False
        res['status'] = 'inconclusive'
        res['reason'] = 'engine error %s: %s | %s' % (type(e).__name__, e, traceback.format_exc().splitlines()[-3:])
    finally:
        signal.setitimer(signal.ITIMER_REAL, 0)
        case.symbolic = False
        res['wall_s'] = round(time.time() - t0, 3)
        res['nodes'] = ir.nnodes()
    return res


def _odesc(o):
    if o[0] == 'ok':
        v = o[1]
        if isinstance(v, (builtins.bytes, SymBytes)):
            return 'ok:bytes[%d]' % len(v)
        if isinstance(v, (list, tuple)):
            return 'ok:seq[%d]' % len(v)
        return 'ok:%s' % type(v).__name__
    return ':'.join(str(x) for x in o[:2])


def _validate(case, shape, src, p, io, rng, res):
    "evaluate the symbolic result under a concrete assignment satisfying the path condition; to be compared with the real run"
    if p.pc:
        s = z3.Solver()
        s.set('timeout', 20000)
        for c in p.pc:
            s.add(ir.lower_bool(c))
        # diversify
        if str(s.check()) != 'sat':
            return
        env = model_env(s.model(), src.vars)
    else:
        env = {}
        for name, bits in src.vars:
            env[name] = rng.getrandbits(bits)
    nodes = []
    value_nodes(io[1], nodes)
    for c in p.pc:
        nodes.append(c)
    try:
        vals = ir.evaluate(nodes, env, case.uf_concrete) if nodes else {}
    except KeyError as e:
        res['status'] = 'inconclusive'
        res['reason'] = 'validation: no concrete interpretation for UF %s' % e
        return
    if not all(vals[c.id] == 1 for c in p.pc):
        res['status'] = 'inconclusive'
        res['reason'] = 'validation: model does not satisfy path condition under IR evaluation'
        return
    expect = common.norm(conc_value(io[1], vals))
    res['validations'].append(dict(env=env, expect=('ok', expect)))


# ---- pool -----------------------------------------------------------------------------------------------
_CASES = {}


def _job(a):
    name, shape, tier, seed = a
    try:
        return run_shape(_CASES[name], shape, tier, seed)
    except BaseException as e:
        return dict(case=name, shape=shape, status='inconclusive', reason='worker crashed: %r' % (e,), obligations=0,
                    discharged=0, identical=0, paths=0, forks=0, branch_checks=0, solver_s=0.0, nvars=0, candidates=[],
                    validations=[], samples=[], queries=0, wall_s=0, kind='?', prop=_CASES[name].prop)


def _die_with_parent():
    "ask the kernel to kill this process when its parent dies (a check killed by a timeout must not leave workers behind)"
    try:
        ctypes.CDLL(None).prctl(1, signal.SIGKILL)        # PR_SET_PDEATHSIG
    except Exception:
        pass


def _worker(tasks, out):
    import gc
    _die_with_parent()
    while True:
        t = tasks.get()
        if t is None:
            break
        idx, w = t
        out.put(('start', idx, os.getpid(), time.time()))
        r = _job(w)
        out.put(('done', idx, os.getpid(), r))
        ir.reset()
        gc.collect()


def hard_limit(w):
    c = _CASES[w[0]]
    return (c.timeout_s * (4 if w[2] == 'thorough' else 1)) * 1.5 + 120


FAILFAST = int(os.environ.get('VERIF_FAILFAST', '12') or 12)
OVERRUNS = int(os.environ.get('VERIF_OVERRUNS', '16') or 16)


def run_pool(work, nproc, verbose=False):
    """own process pool: a job that overruns its hard limit (z3 not returning) gets its worker killed and is
    reported inconclusive - never a silent pass, never a hang.  Once FAILFAST shapes have produced a counterexample that is
    not a listed known finding, the shapes not yet started are not run (reported as such): the verdict is already a violation."""
    import queue
    kf = known_findings()
    nviol = [0]
    nover = [0]
    stopped = [False]
    ctx = multiprocessing.get_context('fork')
    tasks, out = ctx.Queue(), ctx.Queue()
    for i, w in enumerate(work):
        tasks.put((i, w))
    procs = {}

    def maybe_stop():
        if (nviol[0] >= FAILFAST or nover[0] >= OVERRUNS) and not stopped[0]:
            stopped[0] = True
            why = 'fail-fast after %d shapes with counterexamples' % nviol[0] if nviol[0] >= FAILFAST else \
                'gave up after %d shapes exceeded their time or path budget (the run is inconclusive, never a pass)' % nover[0]
            while True:
                try:
                    t = tasks.get(timeout=0.2)
                except queue.Empty:
                    break
                if t is None:
                    continue
                w = work[t[0]]
                results[t[0]] = dict(case=w[0], shape=w[1], status='inconclusive', reason='not run: ' + why,
                                     obligations=0, discharged=0, identical=0, paths=0, forks=0, branch_checks=0, solver_s=0.0, nvars=0, candidates=[],
                                     validations=[], samples=[], queries=0, wall_s=0.0, kind='?', prop=_CASES[w[0]].prop)

    def spawn():
        p = ctx.Process(target=_worker, args=(tasks, out), daemon=True)
        p.start()
        procs[p.pid] = p
    for _ in range(min(nproc, len(work))):
        spawn()
    running = {}
    results = {}
    while len(results) < len(work):
        try:
            m = out.get(timeout=1.0)
        except queue.Empty:
            m = None
        if m is not None:
            if m[0] == 'start':
                running[m[2]] = (m[1], m[3])
            else:
                running.pop(m[2], None)
                results[m[1]] = m[3]
                r = m[3]
                if r['status'] == 'violation' and r['candidates'] and match_known(kf, r['prop'], r['case'], r['shape'], r['candidates'][0].get('observable')) is None:
                    nviol[0] += 1
                if r['status'] == 'inconclusive' and ('budget' in str(r.get('reason')) or 'more than' in str(r.get('reason'))):
                    nover[0] += 1
                maybe_stop()
                if verbose:
                    r = m[3]
                    print('  [%s] %s %s %.1fs %s' % (r['status'], r['case'], json.dumps(r['shape'], sort_keys=True), r.get('wall_s', 0), r.get('reason') or ''), flush=True)
        now = time.time()
        for pid, (idx, t0) in list(running.items()):
            if idx in results:
                running.pop(pid, None)
                continue
            if now - t0 > hard_limit(work[idx]) or not procs[pid].is_alive():
                why = 'worker exceeded the hard limit of %ds and was killed' % hard_limit(work[idx]) if procs[pid].is_alive() else 'worker died'
                try:
                    os.kill(pid, signal.SIGKILL)
                except OSError:
                    pass
                procs[pid].join(5)
                procs.pop(pid, None)
                running.pop(pid, None)
                w = work[idx]
                results[idx] = dict(case=w[0], shape=w[1], status='inconclusive', reason=why, obligations=0, discharged=0, identical=0,
                                    paths=0, forks=0, branch_checks=0, solver_s=0.0, nvars=0, candidates=[], validations=[], samples=[],
                                    queries=0, wall_s=round(now - t0, 1), kind='?', prop=_CASES[w[0]].prop)
                nover[0] += 1
                maybe_stop()
                if verbose:
                    print('  [killed] %s %s' % (w[0], json.dumps(w[1], sort_keys=True)), flush=True)
                spawn()
        # a worker may die between jobs (e.g. z3 abort): keep the pool populated
        if len(results) < len(work) and not any(p.is_alive() for p in procs.values()):
            spawn()
    for _ in procs:
        tasks.put(None)
    for p in procs.values():
        p.join(2)
        if p.is_alive():
            p.kill()
    return [results[i] for i in range(len(work))]


def known_findings():
    p = os.path.join(VERIF, 'known_findings.json')
    if not os.path.exists(p):
        return []
    return json.load(open(p)).get('known', [])


def match_known(kf, prop, case, shape, obs):
    for k in kf:
        if k['property'] != prop or k['case'] != case:
            continue
        if 'observable' in k and k['observable'] != obs:
            continue
        if all(shape.get(a) == b for a, b in k.get('shape', {}).items()):
            return k
    return None


def plain_batch(items):
    "run impl (and spec) on the untouched repo under /venv/bin/python; items: list of dicts; returns list of results"
    if not items:
        return []
    import tempfile
    d = tempfile.mkdtemp(prefix='symx-')
    fi, fo = os.path.join(d, 'in.json'), os.path.join(d, 'out.json')
    json.dump(items, open(fi, 'w'))
    env = dict(os.environ)
    env.pop('BDCHT_CRYSP_VERIF', None)
    env['BDCHT_CRYSP_VERIF'] = '1'
    try:
        r = subprocess.run([PLAIN_PY, os.path.join(VERIF, 'replay.py'), '--batch', fi, fo], env=env, cwd=VERIF,
                           stdout=subprocess.PIPE, stderr=subprocess.STDOUT, timeout=3600)
        if not os.path.exists(fo):
            raise RuntimeError('plain replay failed: %s' % r.stdout.decode()[-2000:])
        return json.load(open(fo))
    finally:
        import shutil
        shutil.rmtree(d, ignore_errors=True)


def run_check(prop, tier, only=None, jobs=None, verbose=False):
    t0 = time.time()
    seed = int(os.environ.get('VERIF_SEED', '0') or 0)
    loader.install()
    cases = common.load_cases(prop)
    if only:
        cases = [c for c in cases if any(o in c.name for o in only)]
    work = []
    for c in cases:
        _CASES[c.name] = c
        for sh in c.shapes(tier):
            work.append((c.name, sh, tier, seed))
    # heavier shapes first
    nproc = jobs or int(os.environ.get('VERIF_JOBS', '0') or 0) or min(16, os.cpu_count() or 4)
    results = []
    if nproc == 1 or len(work) <= 1:
        for w in work:
            results.append(_job(w))
    else:
        results = run_pool(work, nproc, verbose)
    results.sort(key=lambda r: (r['case'], json.dumps(r['shape'], sort_keys=True)))
    return finish(prop, tier, seed, results, t0)


def finish(prop, tier, seed, results, t0):
    kf = known_findings()
    # 1. confirm candidates on the untouched repo
    items = []
    for ri, r in enumerate(results):
        for ci, c in enumerate(r['candidates']):
            items.append(dict(tag=[ri, ci], mode='check', case=r['case'], prop=prop, shape=r['shape'], env=c['env']))
        for vi, v in enumerate(r['validations']):
            items.append(dict(tag=[ri, -1 - vi], mode='impl', case=r['case'], prop=prop, shape=r['shape'], env=v['env']))
    out = plain_batch(items)
    violations, knowns, inconcl = [], [], []
    nvalid = 0
    os.makedirs(os.path.join(VERIF, 'replays'), exist_ok=True)
    for it, o in zip(items, out):
        ri, ci = it['tag']
        r = results[ri]
        if ci >= 0:
            c = r['candidates'][ci]
            if o.get('agree') is False:
                obs = common_observable(o)
                k = match_known(kf, prop, r['case'], r['shape'], obs)
                if k is not None:
                    knowns.append((k, r, obs))
                    r['status'] = 'known'
                else:
                    h = hashlib.sha256(json.dumps([r['case'], r['shape'], c['env']], sort_keys=True).encode()).hexdigest()[:12]
                    path = os.path.join(VERIF, 'replays', '%s-%s.json' % (prop, h))
                    json.dump(dict(property=prop, case=r['case'], shape=r['shape'], env=c['env'], observable=obs,
                                   impl=o.get('impl'), spec=o.get('spec'),
                                   how='python3 /verif/check --replay %s' % path), open(path, 'w'), indent=1)
                    violations.append((r, path, obs, o))
            else:
                r['status'] = 'inconclusive'
                r['reason'] = 'counterexample reproduced under the engine but not on the untouched repo: %s' % json.dumps(o)[:300]
        else:
            v = r['validations'][-1 - ci]
            if o.get('impl') is not None and list(o['impl']) == list(v['expect']):
                nvalid += 1
            else:
                r['status'] = 'inconclusive' if r['status'] in ('pass',) else r['status']
                r['reason'] = 'translator validation failed: engine says %s, real code says %s (env %s)' % (
                    json.dumps(v['expect'])[:200], json.dumps(o.get('impl'))[:200], json.dumps(v['env'])[:200])
    for r in results:
        if 'sat' in r.get('second', []) and r['status'] == 'pass':
            r['status'] = 'inconclusive'
            r['reason'] = 'z3 discharged an obligation that cvc5 reports satisfiable (solvers disagree)'
    for r in results:
        if r['status'] == 'inconclusive':
            inconcl.append(r)
    # 2. report
    for k, r, obs in knowns:
        pass
    seen = set()
    for k, r, obs in knowns:
        key = k.get('id') or json.dumps(k, sort_keys=True)
        if key in seen:
            continue
        seen.add(key)
        print('KNOWN-FINDING: property=%s %s' % (prop, k['what']))
    for r, path, obs, o in violations:
        print('VIOLATION property=%s replay=%s' % (prop, path))
        print('  case=%s shape=%s observable=%s impl=%s spec=%s' % (r['case'], json.dumps(r['shape'], sort_keys=True), obs,
                                                                  json.dumps(o.get('impl'))[:160], json.dumps(o.get('spec'))[:160]))
    notrun = [r for r in inconcl if str(r.get('reason')).startswith('not run:')]
    for r in inconcl:
        if r not in notrun:
            print('INCONCLUSIVE property=%s case=%s shape=%s: %s' % (prop, r['case'], json.dumps(r['shape'], sort_keys=True), r.get('reason')))
    if notrun:
        print('INCONCLUSIVE property=%s: %d shapes %s' % (prop, len(notrun), notrun[0]['reason']))
    write_evidence(prop, tier, seed, results, violations, knowns, inconcl, nvalid, time.time() - t0)
    npass = sum(1 for r in results if r['status'] == 'pass')
    print('%s %s: shapes=%d pass=%d known=%d violation=%d inconclusive=%d obligations=%d discharged=%d validated=%d wall=%.1fs' % (
        prop, tier, len(results), npass, sum(1 for r in results if r['status'] == 'known'), len(violations), len(inconcl),
        sum(r['obligations'] for r in results), sum(r['discharged'] for r in results), nvalid, time.time() - t0))
    if violations:
        return 1
    if inconcl:
        return 2
    return 0


def common_observable(o):
    io, so = o.get('impl'), o.get('spec')
    return observable(tuple(io), tuple(so))


def write_evidence(prop, tier, seed, results, violations, knowns, inconcl, nvalid, wall):
    if os.environ.get('VERIF_REPO', '/repo') != '/repo' or os.environ.get('VERIF_NO_EVIDENCE'):
        return          # exploratory run against a scratch copy (tools/mutate.py): evidence describes /repo only
    os.makedirs(os.path.join(VERIF, 'evidence'), exist_ok=True)
    obl = sum(r['obligations'] for r in results)
    dis = sum(r['discharged'] for r in results)
    ident = sum(r['identical'] for r in results)
    samples = []
    bycase = {}
    for r in results:
        c = bycase.setdefault(r['case'], dict(shapes=0, obligations=0, discharged=0, identical_terms=0, paths=0, solver_s=0.0, kind=r.get('kind')))
        c['shapes'] += 1
        c['obligations'] += r['obligations']
        c['discharged'] += r['discharged']
        c['identical_terms'] += r['identical']
        c['paths'] += r['paths']
        c['solver_s'] = round(c['solver_s'] + r['solver_s'], 3)
    allsamples = []
    for r in results:
        for smp in r['samples']:
            d = dict(smp)
            d['case'] = r['case']
            allsamples.append(d)
    # prefer obligations with many free variables and real solver work over trivial ones
    allsamples.sort(key=lambda d: (d.get('goal') != 'syntactically identical terms', d.get('free_vars', 0), d.get('path_condition_atoms', 0)), reverse=True)
    for d in allsamples:
        if sum(1 for x in samples if x.get('case') == d['case']) < 2:
            samples.append(d)
    distinct = len(set((r['case'], json.dumps(r['shape'], sort_keys=True)) for r in results if r['nvars'] > 0 and r['obligations'] > 0))
    cases = {c.name: c for c in common.REGISTRY.values() if c.prop == prop}
    ev = dict(
        property_id=prop, tier=tier, seed=seed, level='model_checking',
        coverage=dict(
            evaluations=sum(r['queries'] + r['branch_checks'] for r in results),
            distinct_nontrivial=distinct,
            rule='one obligation per feasible path of (real function, oracle) on one shape with every data byte/word a free solver variable; '
                 'a shape counts as distinct non-trivial when it has >= 1 free variable and >= 1 obligation; shapes (lengths, sizes, configurations) are enumerated, data is universally quantified by z3',
            samples=samples[:12] or [{'note': 'no obligations'}],
            states=max(1, sum(r['paths'] for r in results)),
            transitions=max(1, sum(r['branch_checks'] for r in results) + sum(r['queries'] for r in results)),
            traces_validated_against_impl=nvalid,
            obligations=obl, discharged=dis, inconclusive=len(inconcl),
            obligations_closed_by_identical_canonical_terms=ident,
            obligations_needing_solver_search=dis - ident,
            per_case=bycase,
            solver_time_s=round(sum(r['solver_s'] for r in results), 3),
            solver='z3 %s (python API), per-query timeout per case' % z3.get_version_string(),
            second_solver=dict(tool='cvc5 binary, 10 s limit, first discharged obligation with non-identical terms per shape (terms < 3000 nodes)',
                               agreed_unsat=sum(r.get('second', []).count('unsat') for r in results),
                               disagreed=sum(r.get('second', []).count('sat') for r in results),
                               no_answer=sum(1 for r in results for x in r.get('second', []) if x not in ('unsat', 'sat'))),
            functions_encoded=loader.functions_encoded(sorted(loader.SOURCES)),
            bounds={c.name: getattr(c, 'bounds', '') for c in cases.values()},
            outside_bounds={c.name: getattr(c, 'outside', '') for c in cases.values() if getattr(c, 'outside', '')},
            stubs={c.name: getattr(c, 'stub_note', '') for c in cases.values() if getattr(c, 'stub_note', '')},
            known_findings_reported=[k['what'] for k, _, _ in knowns][:50],
            violations=[dict(case=r['case'], shape=r['shape'], replay=p, observable=obs) for r, p, obs, _ in violations][:50],
            inconclusive_shapes=[dict(case=r['case'], shape=r['shape'], reason=r.get('reason')) for r in inconcl][:50],
            exhaustive=False,
            checker_cmd='python3-vt /verif/check %s --tier %s' % (prop, tier),
            trusted_base=['z3', 'CPython', 'symx engine (AST instrumentation, shims, canonical IR; guarded by translator validation against /venv/bin/python runs and IR rule lemmas)', 'reference models in /verif/refs (self-validated against hashlib/hmac/zlib and published vectors at setup)'],
        ),
        assumptions=['bounds are enumerated shapes; nothing is claimed outside them',
                     'UF leaves are sound only together with the leaf lemmas of the same run'],
        wall_s=round(wall, 2), violations=len(violations))
    json.dump(ev, open(os.path.join(VERIF, 'evidence', '%s.json' % prop), 'w'), indent=1, default=str)
