"""symx core: path exploration context, symbolic value types (SymInt/SymBool/SymBytes) and the builtin shims
that the instrumented crysp modules see.  Python ints are unbounded, so SymInt carries an IR bit-vector node
*and* an interval; widths grow as Python's ints do, so no wrap-around is introduced that the source lacks."""
import builtins, operator, time
import z3
from . import ir


class Leak(Exception):
    "a symbolic value reached something the engine cannot model -> the obligation is inconclusive"


class Abort(BaseException):
    "internal: infeasible path"


# ----------------------------------------------------------------------------------------------------
class Ctx(object):
    def __init__(self):
        self.solver = None
        self.prefix = []
        self.trace = []
        self.pc = []              # 1-bit IR nodes assumed on this path
        self.nchecks = 0          # solver calls made for branching
        self.nforks = 0
        self.solver_time = 0.0
        self.timeout_ms = 60000
        self.active = False

    def reset(self, prefix, assumptions=()):
        self.solver = z3.Solver()
        self.solver.set('timeout', self.timeout_ms)
        self.prefix = list(prefix)
        self.trace = []
        self.pc = []
        for a in assumptions:
            self.assume(a)

    def assume(self, c):
        if isinstance(c, SymBool):
            c = c.n
        elif isinstance(c, bool):
            if not c:
                raise Abort('assume(False)')
            return
        if ir.isc(c):
            if not c.a:
                raise Abort('assume(False)')
            return
        self.pc.append(c)
        self.solver.add(ir.lower_bool(c))

    def check(self, extra):
        self.nchecks += 1
        t0 = time.time()
        self.solver.push()
        self.solver.add(extra)
        r = str(self.solver.check())
        self.solver.pop()
        self.solver_time += time.time() - t0
        return r


CTX = Ctx()


def branch(c):
    "c: 1-bit IR node.  Returns a python bool, forking if both sides are feasible under the path condition."
    if ir.isc(c):
        return bool(c.a)
    if CTX.solver is None:
        raise Leak('symbolic branch outside explore()')
    i = len(CTX.trace)
    if i < len(CTX.prefix):
        kind, d = CTX.prefix[i]
        assert kind == 'b', (kind, d)
        CTX.trace.append(('b', d, True))
        CTX.assume(c if d else ir.bnot(c))
        return d
    zc = ir.lower_bool(c)
    rt = CTX.check(zc)
    if rt == 'unknown':
        raise Leak('solver unknown on branch')
    if rt == 'unsat':
        rf = CTX.check(z3.Not(zc))
        if rf == 'unknown':
            raise Leak('solver unknown on branch')
        if rf == 'unsat':
            raise Abort('infeasible path')
        CTX.trace.append(('b', False, False))
        return False
    rf = CTX.check(z3.Not(zc))
    if rf == 'unknown':
        raise Leak('solver unknown on branch')
    if rf == 'unsat':
        CTX.trace.append(('b', True, False))
        return True
    CTX.nforks += 1
    CTX.trace.append(('b', True, True))
    CTX.assume(c)
    return True


def pick(x):
    "a feasible concrete value of SymInt x under the current path condition (recorded so that re-execution repeats it)"
    i = len(CTX.trace)
    if i < len(CTX.prefix):
        kind, v = CTX.prefix[i]
        assert kind == 'p', (kind, v)
        CTX.trace.append(('p', v, False))
        return v
    if CTX.solver is None:
        raise Leak('concretisation outside explore()')
    CTX.nchecks += 1
    t0 = time.time()
    r = str(CTX.solver.check())
    CTX.solver_time += time.time() - t0
    if r == 'unsat':
        raise Abort('infeasible path')
    if r != 'sat':
        raise Leak('solver unknown on pick')
    m = CTX.solver.model()
    zv = m.eval(ir.lower(x.n), model_completion=True)
    v = zv.as_long()
    if x.signed and v >> (x.n.w - 1):
        v -= 1 << x.n.w
    CTX.trace.append(('p', v, False))
    return v


class Path(object):
    __slots__ = ('pc', 'kind', 'value', 'trace')

    def __init__(self, pc, kind, value, trace):
        self.pc, self.kind, self.value, self.trace = pc, kind, value, trace

    def __repr__(self):
        return 'Path<%s %r pc=%d>' % (self.kind, self.value, len(self.pc))


def explore_iter(fn, assumptions=(), max_paths=4000, catch=Exception):
    """generator: run fn() on every feasible path, yielding one Path at a time (kind 'ok' with value = result, or 'exc' with
    value = exception).  The consumer may stop early.  Leak is never swallowed: it propagates (the obligation is inconclusive).
    The engine context is re-established from the decision prefix at each path, so the consumer is free to use its own solvers
    between two paths."""
    n = 0
    stack = [[]]
    try:
        while stack:
            prefix = stack.pop()
            try:
                CTX.reset(prefix, assumptions)
                try:
                    r = ('ok', fn())
                except Abort:
                    continue
                except Leak:
                    raise
                except catch as e:
                    r = ('exc', e)
            except Abort:
                continue
            tr = CTX.trace
            for k in range(len(prefix), len(tr)):
                kind, d, forked = tr[k]
                if forked:
                    stack.append([(x[0], x[1]) for x in tr[:k]] + [('b', not d)])
            n += 1
            if n > max_paths:
                raise Leak('more than %d paths' % max_paths)
            path = Path(list(CTX.pc), r[0], r[1], [(x[0], x[1]) for x in tr])
            CTX.solver = None
            yield path
    finally:
        CTX.solver = None


def explore(fn, assumptions=(), max_paths=4000, catch=Exception):
    "all feasible paths of fn() as a list (see explore_iter)"
    return list(explore_iter(fn, assumptions, max_paths, catch))


def run1(fn, assumptions=()):
    "run fn expecting exactly one feasible path; returns the Path"
    ps = explore(fn, assumptions)
    if len(ps) != 1:
        raise Leak('expected a single path, got %d' % len(ps))
    return ps[0]


# ----------------------------------------------------------------------------------------------------
def _bl(n):
    return max(1, builtins.int(n).bit_length())


def _sbits(lo, hi):
    return max(_bl(hi if hi >= 0 else -hi - 1), _bl(lo if lo >= 0 else -lo - 1)) + 1


class SymBool(object):
    __slots__ = ('n',)

    def __init__(self, n):
        self.n = n

    def __bool__(self):
        return branch(self.n)

    def __invert__(self):
        return SymBool(ir.bnot(self.n))

    def __and__(self, o):
        if isinstance(o, bool):
            return self if o else False
        return SymBool(ir.band(self.n, o.n))
    __rand__ = __and__

    def __or__(self, o):
        if isinstance(o, bool):
            return True if o else self
        return SymBool(ir.bor(self.n, o.n))
    __ror__ = __or__

    def __eq__(self, o):
        if isinstance(o, SymBool):
            return mkbool(ir.cmp('eq', self.n, o.n))
        if isinstance(o, (bool, builtins.int)):
            return self if o == 1 else (~self if o == 0 else False)
        return False

    def __ne__(self, o):
        r = self.__eq__(o)
        return (not r) if isinstance(r, bool) else ~r
    __hash__ = None

    def __repr__(self):
        return 'SymBool<%r>' % self.n


def mkbool(n):
    if ir.isc(n):
        return bool(n.a)
    return SymBool(n)


def bnode(c):
    "python bool / SymBool -> 1-bit node"
    if isinstance(c, SymBool):
        return c.n
    return ir.const(1, 1 if c else 0)


class SymInt(object):
    """python int as IR node.  unsigned (lo >= 0): value == node, width == bit_length(hi);
    signed (lo < 0): two's complement at node width."""
    __slots__ = ('n', 'lo', 'hi', 'lin', 'tag')

    def __init__(self, n, lo, hi, lin=None, tag=None):
        self.n, self.lo, self.hi, self.lin, self.tag = n, lo, hi, lin, tag

    @property
    def w(self):
        return self.n.w

    @property
    def signed(self):
        return self.lo < 0

    @staticmethod
    def var(name, bits):
        return SymInt(ir.var(bits, name), 0, (1 << bits) - 1)

    def sw(self):
        "width needed to hold the value in two's complement"
        return self.w if self.signed else self.w + 1

    def ext(self, W):
        if W == self.w:
            return self.n
        assert W > self.w, (W, self.w)
        return ir.sext(self.n, W) if self.signed else ir.zext(self.n, W)

    @staticmethod
    def mk(n, lo, hi):
        """normalise.  Node widths are *structural* (only syntactic leading zeros are stripped); the interval never
        slices a node, so two computations of one value with different interval precision still give one node."""
        if ir.isc(n):
            v = n.a
            if lo < 0 and v >> (n.w - 1):
                v -= 1 << n.w
            return v
        if lo == hi:
            return lo
        if lo >= 0:
            if n.k == 'cat':
                top = n.a[-1]
                if top[0] == 'c' and top[1].bit_length() < top[2]:
                    # leading zeros of the top constant segment are not part of the value's structure
                    n = ir.slc(n, 0, n.w - top[2] + top[1].bit_length())
                    if ir.isc(n):
                        return n.a
            hi = min(hi, (1 << n.w) - 1)
            if lo > hi:
                lo = hi
            if lo == hi:
                return lo
            return SymInt(n, lo, hi)
        k = _sbits(lo, hi)
        if k > n.w:
            n = ir.sext(n, k)
        return SymInt(n, lo, hi)

    @staticmethod
    def lift(v):
        if isinstance(v, SymInt):
            return v
        if isinstance(v, bool):
            v = builtins.int(v)
        if isinstance(v, builtins.int):
            return _Const(v)
        if isinstance(v, SymBool):
            return SymInt(v.n, 0, 1)
        return None

    def _bin(self, o, op):
        o = SymInt.lift(o)
        if o is None:
            return NotImplemented
        return op(self, o)

    def __add__(self, o): return self._bin(o, _add)
    def __radd__(self, o): return self._bin(o, lambda a, b: _add(b, a))
    def __sub__(self, o): return self._bin(o, _sub)
    def __rsub__(self, o): return self._bin(o, lambda a, b: _sub(b, a))
    def __mul__(self, o): return self._bin(o, _mul)
    def __rmul__(self, o): return self._bin(o, lambda a, b: _mul(b, a))
    def __and__(self, o): return self._bin(o, lambda a, b: _bw('and', a, b))
    def __rand__(self, o): return self._bin(o, lambda a, b: _bw('and', b, a))
    def __or__(self, o): return self._bin(o, lambda a, b: _bw('or', a, b))
    def __ror__(self, o): return self._bin(o, lambda a, b: _bw('or', b, a))
    def __xor__(self, o): return self._bin(o, lambda a, b: _bw('xor', a, b))
    def __rxor__(self, o): return self._bin(o, lambda a, b: _bw('xor', b, a))
    def __lshift__(self, o): return self._bin(o, _shl)
    def __rlshift__(self, o): return self._bin(o, lambda a, b: _shl(b, a))
    def __rshift__(self, o): return self._bin(o, _shr)
    def __rrshift__(self, o): return self._bin(o, lambda a, b: _shr(b, a))
    def __mod__(self, o): return self._bin(o, _mod)
    def __rmod__(self, o): return self._bin(o, lambda a, b: _mod(b, a))
    def __floordiv__(self, o): return self._bin(o, _fdiv)
    def __rfloordiv__(self, o): return self._bin(o, lambda a, b: _fdiv(b, a))
    def __divmod__(self, o): return (self // o, self % o)
    def __neg__(self): return _sub(_Const(0), self)
    def __pos__(self): return self
    def __invert__(self): return _sub(_Const(-1), self)

    def __abs__(self):
        if self.lo >= 0:
            return self
        if self.hi <= 0:
            return -self
        if self.lin is not None and self.lin[0]:
            # |x| == |-x|: build from the sign-normalised linear form (lowest atom positive), so |a-b| and |b-a| are one term
            first = min(self.lin[0])
            if self.lin[0][first] < 0:
                m = -self
                if isinstance(m, SymInt) and m.lin is not None and m.lin[0] and m.lin[0][min(m.lin[0])] > 0:
                    return ite(m < 0, -m, m)
        return ite(self < 0, -self, self)

    def __truediv__(self, o):
        raise Leak('true division of symbolic int (float)')
    __rtruediv__ = __truediv__

    def __float__(self):
        raise Leak('float() of symbolic int')

    def __pow__(self, o, m=None):
        raise Leak('pow of symbolic int')
    __rpow__ = __pow__

    def _cmp(self, o, kind):
        if type(o) is builtins.float and o == o and o not in (builtins.float('inf'), -builtins.float('inf')):
            # integer against a finite float: exact integer comparison (x < f  <=>  x < ceil(f);  x <= f  <=>  x <= floor(f))
            import math
            fl, ce = math.floor(o), math.ceil(o)
            if fl != ce:
                if kind == 'eq': return False
                if kind == 'ne': return True
            o = {'eq': fl, 'ne': fl, 'lt': ce, 'ge': ce, 'le': fl, 'gt': fl}[kind]
        o2 = SymInt.lift(o)
        if o2 is None:
            if kind == 'eq': return False
            if kind == 'ne': return True
            return NotImplemented
        return _cmp(self, o2, kind)

    def __eq__(self, o): return self._cmp(o, 'eq')
    def __ne__(self, o): return self._cmp(o, 'ne')
    def __lt__(self, o): return self._cmp(o, 'lt')
    def __le__(self, o): return self._cmp(o, 'le')
    def __gt__(self, o): return self._cmp(o, 'gt')
    def __ge__(self, o): return self._cmp(o, 'ge')
    def __bool__(self): return bool(self != 0)

    def __hash__(self):
        # dict / set membership with a symbolic key: enumerate the key's feasible values (solver-driven fork);
        # wide keys cannot be enumerated: fail fast (inconclusive) instead of forking forever
        if self.hi - self.lo >= (1 << 16):
            raise Leak('hash of a symbolic integer with %d-bit range (dict/set keyed by symbolic data)' % (self.hi - self.lo).bit_length())
        return hash(concretize(self))

    def __index__(self): return concretize(self)
    def __int__(self): return concretize(self)

    def bit_length(self):
        """symbolic bit length (no forking): an ite-chain value tagged with the node it measures, so that the idiom
        x & ((1 << x.bit_length()) - 1) - which is x - is recognised (Bits(int) sizes itself that way)"""
        if self.lo < 0:
            raise Leak('bit_length of maybe-negative symbolic')
        if self.w > MAXBL_SYMBOLIC:
            # wider than a machine word: fork on the length, longest first (at most w+1 paths); data-dependent vector sizes
            # then stay concrete downstream
            for k in range(self.w, 0, -1):
                if self >= (1 << (k - 1)):
                    return k
            return 0
        r = 0
        for k in range(1, self.w + 1):
            r = ite(self >= (1 << (k - 1)), k, r)
        if isinstance(r, SymInt):
            r = SymInt(r.n, r.lo, r.hi, None, ('bitlen', self.n.id))
        return r

    def to_bytes(self, length=1, byteorder='big', *, signed=False):
        if signed or self.lo < 0:
            raise Leak('int.to_bytes of a signed / maybe-negative symbolic')
        length = builtins.int(length)
        if self.hi >= (1 << (8 * length)):
            if self >= (1 << (8 * length)):
                raise OverflowError('int too big to convert')
        n = self.n if self.w >= 8 * length else ir.zext(self.n, 8 * length)
        bs = [from_n(ir.slc(n, 8 * i, 8)) for i in range(length)]
        if byteorder == 'big':
            bs.reverse()
        elif byteorder != 'little':
            raise ValueError("byteorder must be either 'little' or 'big'")
        return SymBytes(bs)

    def __repr__(self):
        return 'SymInt<%d..%d #%d>' % (self.lo, self.hi, self.n.id)

    def __format__(self, spec):
        return format(concretize(self), spec)


class _Const(SymInt):
    __slots__ = ('v',)

    def __init__(self, v):
        self.v = v
        self.lo = self.hi = v
        self.n = None
        self.lin = None
        self.tag = None

    @property
    def w(self):
        return _bl(self.v) if self.v >= 0 else _bl(-self.v - 1) + 1

    @property
    def signed(self):
        return self.v < 0

    def ext(self, W):
        return ir.const(W, self.v)

    def sw(self):
        return _bl(self.v if self.v >= 0 else -self.v - 1) + 1


def _isc(x):
    return isinstance(x, _Const)


def _lin_of(x):
    "exact linear form {atom node id: integer coefficient}, constant  (atoms are unsigned nodes)"
    if _isc(x):
        return ({}, x.v)
    if x.lin is not None:
        return x.lin
    if not x.signed:
        return ({x.n.id: 1}, 0)
    return None


def _from_lin(terms, c0, lo, hi):
    terms = dict((i, c) for i, c in terms.items() if c)
    if not terms:
        return c0
    if len(terms) == 1 and c0 == 0:
        (i, c), = terms.items()
        if c == 1:
            a = ir.node(i)
            return SymInt.mk(a, max(lo, 0), min(hi, (1 << a.w) - 1))
    # width from the linear form alone (structural), never from interval precision
    slo = shi = c0
    for i, c in terms.items():
        m = (1 << ir.node(i).w) - 1
        if c > 0: shi += c * m
        else: slo += c * m
    lo, hi = max(lo, slo), min(hi, shi)
    W = _bl(shi) if slo >= 0 else _sbits(slo, shi)
    items = []
    for i, c in terms.items():
        a = ir.node(i)
        items.append((ir.zext(a, W), c))
    r = SymInt.mk(ir.add(W, items, c0), lo, hi)
    if isinstance(r, SymInt) and r.lin is None:
        r.lin = (terms, c0)
    return r


def _lin_comb(a, b, kb):
    la, lb = _lin_of(a), _lin_of(b)
    if la is None or lb is None:
        return None
    t = dict(la[0])
    for i, c in lb[0].items():
        t[i] = t.get(i, 0) + kb * c
    return t, la[1] + kb * lb[1]


def _add(a, b):
    if _isc(a) and _isc(b):
        return a.v + b.v
    if _isc(b) and b.v == 0: return a
    if _isc(a) and a.v == 0: return b
    lo, hi = a.lo + b.lo, a.hi + b.hi
    lc = _lin_comb(a, b, 1)
    if lc is not None:
        return _from_lin(lc[0], lc[1], lo, hi)
    W = max(a.sw(), b.sw(), _sbits(lo, hi))
    return SymInt.mk(ir.add(W, [(a.ext(W), 1), (b.ext(W), 1)]), lo, hi)


def _sub(a, b):
    if _isc(a) and _isc(b):
        return a.v - b.v
    if _isc(b) and b.v == 0: return a
    if _isc(b) and b.v == 1 and a.tag is not None and a.tag[0] == 'pow2bl':
        r = _sub_plain(a, b)
        if isinstance(r, SymInt):
            r = SymInt(r.n, r.lo, r.hi, r.lin, ('mask', a.tag[1]))
        return r
    return _sub_plain(a, b)


def _sub_plain(a, b):
    lo, hi = a.lo - b.hi, a.hi - b.lo
    lc = _lin_comb(a, b, -1)
    if lc is not None:
        return _from_lin(lc[0], lc[1], lo, hi)
    W = max(a.sw(), b.sw(), _sbits(lo, hi))
    return SymInt.mk(ir.add(W, [(a.ext(W), 1), (b.ext(W), -1)]), lo, hi)


def _mul(a, b):
    if _isc(a) and _isc(b):
        return a.v * b.v
    if _isc(a):
        a, b = b, a
    if _isc(b):
        if b.v == 0: return 0
        if b.v == 1: return a
        c = [a.lo * b.v, a.hi * b.v]
        lo, hi = min(c), max(c)
        if b.v > 0 and b.v & (b.v - 1) == 0 and a.lo >= 0:
            return _shl(a, _Const(b.v.bit_length() - 1))
        la = _lin_of(a)
        if la is not None:
            return _from_lin(dict((i, c * b.v) for i, c in la[0].items()), la[1] * b.v, lo, hi)
        W = max(a.sw(), _sbits(lo, hi))
        return SymInt.mk(ir.add(W, [(a.ext(W), b.v)]), lo, hi)
    c = [a.lo * b.lo, a.lo * b.hi, a.hi * b.lo, a.hi * b.hi]
    lo, hi = min(c), max(c)
    W = max(a.sw(), b.sw(), _sbits(lo, hi))
    return SymInt.mk(ir.mul(a.ext(W), b.ext(W)), lo, hi)


def _bw(kind, a, b):
    if kind == 'and' and not _isc(a) and not _isc(b):
        # x & ((1 << bitlen(x)) - 1) == x
        if b.tag is not None and b.tag == ('mask', a.n.id):
            return a
        if a.tag is not None and a.tag == ('mask', b.n.id):
            return b
    if _isc(a) and _isc(b):
        return {'and': a.v & b.v, 'or': a.v | b.v, 'xor': a.v ^ b.v}[kind]
    if _isc(a):
        a, b = b, a
    if _isc(b):
        if b.v == 0:
            return 0 if kind == 'and' else a
        if b.v == -1 and kind == 'and':
            return a
        if kind == 'and' and b.v > 0 and (b.v & (b.v + 1)) == 0 and a.lo >= 0 and a.w <= _bl(b.v):
            return a          # the mask keeps every bit: no new node (keeps exact linear forms alive)
    if a.lo >= 0 and b.lo >= 0:
        W = max(a.w, b.w)
        if kind == 'and':
            hi = min(a.hi, b.hi)
        else:
            hi = (1 << max(_bl(a.hi), _bl(b.hi))) - 1
        return SymInt.mk(ir.bitop(kind, a.ext(W), b.ext(W)), 0, hi)
    if kind == 'and' and (a.lo >= 0 or b.lo >= 0):
        # non-negative & anything is non-negative and bounded by the non-negative operand
        p = a if a.lo >= 0 else b
        W = max(a.sw(), b.sw())
        r = ir.bitop('and', a.ext(W), b.ext(W))
        return SymInt.mk(ir.slc(r, 0, p.w) if p.w < W else r, 0, p.hi)
    W = max(a.sw(), b.sw())
    r = ir.bitop(kind, a.ext(W), b.ext(W))
    return SymInt.mk(r, -(1 << (W - 1)), (1 << (W - 1)) - 1)


MAXSHIFT_CASES = 130
MAXBL_SYMBOLIC = 64


def _shl(a, n):
    if _isc(a) and _isc(n):
        return a.v << n.v
    if _isc(n):
        if n.v < 0:
            raise ValueError('negative shift count')
        if n.v == 0:
            return a
        r = SymInt(ir.shl(a.n, n.v), a.lo << n.v, a.hi << n.v)
        la = _lin_of(a)
        if la is not None and not a.signed:
            r.lin = (dict((i, c << n.v) for i, c in la[0].items()), la[1] << n.v)
        return r
    if n.lo < 0:
        if (n < 0):
            raise ValueError('negative shift count')
    lo, hi = max(n.lo, 0), n.hi
    if hi - lo + 1 > MAXSHIFT_CASES:
        return _shl(a, _Const(concretize(n)))        # too many amounts for one ite-chain: fork on the amount (solver-driven)
    r = a << hi if not _isc(a) else a.v << hi
    for k in range(hi - 1, lo - 1, -1):
        r = ite(n == k, (a << k) if not _isc(a) else (a.v << k), r)
    if _isc(a) and a.v == 1 and n.tag is not None and n.tag[0] == 'bitlen' and isinstance(r, SymInt):
        r = SymInt(r.n, r.lo, r.hi, None, ('pow2bl', n.tag[1]))
    return r


def _shr(a, n):
    if _isc(a) and _isc(n):
        return a.v >> n.v
    if _isc(n):
        if n.v < 0:
            raise ValueError('negative shift count')
        if n.v == 0:
            return a
        if a.signed:
            if n.v >= a.w - 1:
                n = _Const(a.w - 1)
            return SymInt.mk(ir.slc(a.n, n.v, a.w - n.v), a.lo >> n.v, a.hi >> n.v)
        if n.v >= a.w:
            return 0
        if a.lin is not None:
            m = (1 << n.v) - 1
            if not (a.lin[1] & m) and not any(c & m for c in a.lin[0].values()):
                # exact division of an exact linear form
                return _from_lin(dict((i, c >> n.v) for i, c in a.lin[0].items()), a.lin[1] >> n.v, a.lo >> n.v, a.hi >> n.v)
        return SymInt.mk(ir.slc(a.n, n.v, a.w - n.v), a.lo >> n.v, a.hi >> n.v)
    if n.lo < 0:
        if (n < 0):
            raise ValueError('negative shift count')
    lo, hi = max(n.lo, 0), n.hi
    if not _isc(a) and not a.signed:
        hi = min(hi, a.w)        # every amount >= width gives 0
        if hi - lo + 1 > MAXSHIFT_CASES:
            return _shr(a, _Const(concretize(n)))
        r = a >> hi
        for k in range(hi - 1, lo - 1, -1):
            r = ite(n == k, a >> k, r)
        if hi < n.hi:
            r = ite(n >= hi, 0, r)
        return r
    if hi - lo + 1 > MAXSHIFT_CASES:
        return _shr(a, _Const(concretize(n)))
    av = a.v if _isc(a) else a
    r = av >> hi
    for k in range(hi - 1, lo - 1, -1):
        r = ite(n == k, av >> k, r)
    return r


def _mod(a, m):
    if _isc(a) and _isc(m):
        return a.v % m.v
    if not _isc(m) or m.v <= 0:
        raise Leak('symbolic/nonpositive modulus')
    mv = m.v
    if a.lo >= 0 and a.hi < mv:
        return a
    if mv & (mv - 1) == 0:
        if mv == 1:
            return 0
        return _bw('and', a, _Const(mv - 1))
    if a.lo >= 0:
        W = max(a.w, _bl(mv))
        return SymInt.mk(ir.urem(a.ext(W), ir.const(W, mv)), 0, mv - 1)
    W = max(a.sw(), _bl(mv) + 1)
    return SymInt.mk(ir.slc(ir.smod(a.ext(W), ir.const(W, mv)), 0, _bl(mv - 1)) if _bl(mv - 1) < W else ir.smod(a.ext(W), ir.const(W, mv)), 0, mv - 1)


def _fdiv(a, m):
    if _isc(a) and _isc(m):
        return a.v // m.v
    if not _isc(m) or m.v <= 0:
        raise Leak('symbolic/nonpositive divisor')
    mv = m.v
    if mv == 1:
        return a
    if mv & (mv - 1) == 0:
        return _shr(a, _Const(mv.bit_length() - 1))
    if a.lo >= 0:
        W = max(a.w, _bl(mv))
        return SymInt.mk(ir.udiv(a.ext(W), ir.const(W, mv)), a.lo // mv, a.hi // mv)
    raise Leak('floordiv of maybe-negative symbolic')


def _cmp(a, b, kind):
    if _isc(a) and _isc(b):
        return {'eq': a.v == b.v, 'ne': a.v != b.v, 'lt': a.v < b.v, 'le': a.v <= b.v,
                'gt': a.v > b.v, 'ge': a.v >= b.v}[kind]
    if kind == 'eq' and (a.hi < b.lo or b.hi < a.lo): return False
    if kind == 'ne' and (a.hi < b.lo or b.hi < a.lo): return True
    if kind == 'lt':
        if a.hi < b.lo: return True
        if a.lo >= b.hi: return False
    if kind == 'le':
        if a.hi <= b.lo: return True
        if a.lo > b.hi: return False
    if kind == 'gt':
        if a.lo > b.hi: return True
        if a.hi <= b.lo: return False
    if kind == 'ge':
        if a.lo >= b.hi: return True
        if a.hi < b.lo: return False
    if a.lo >= 0 and b.lo >= 0:
        W = max(a.w, b.w)
        x, y = a.ext(W), b.ext(W)
        lt, le = 'ult', 'ule'
    else:
        W = max(a.sw(), b.sw())
        x, y = a.ext(W), b.ext(W)
        lt, le = 'slt', 'sle'
    if kind == 'eq': n = ir.cmp('eq', x, y)
    elif kind == 'ne': n = ir.bnot(ir.cmp('eq', x, y))
    elif kind == 'lt': n = ir.cmp(lt, x, y)
    elif kind == 'le': n = ir.cmp(le, x, y)
    elif kind == 'gt': n = ir.cmp(lt, y, x)
    else: n = ir.cmp(le, y, x)
    return mkbool(n)


def ite(c, a, b):
    "if-then-else on ints / SymInts (c: bool or SymBool)"
    if isinstance(c, bool):
        return a if c else b
    a2, b2 = SymInt.lift(a), SymInt.lift(b)
    if a2 is None or b2 is None:
        raise Leak('ite over non-integers')
    if _isc(a2) and _isc(b2) and a2.v == b2.v:
        return a2.v
    lo, hi = min(a2.lo, b2.lo), max(a2.hi, b2.hi)
    if lo >= 0:
        W = max(a2.w, b2.w)
    else:
        W = max(a2.sw(), b2.sw())
    return SymInt.mk(ir.ite(c.n, a2.ext(W), b2.ext(W)), lo, hi)


CONCRETIZE_LIMIT = 1 << 16


def concretize(x):
    "fork over the feasible values of x"
    if not isinstance(x, SymInt):
        return operator.index(x)
    if _isc(x):
        return x.v
    n = 0
    while True:
        v = pick(x)
        if (x == v):
            return v
        n += 1
        if n > CONCRETIZE_LIMIT:
            raise Leak('concretize: too many values')


def concretize_bitlen(x):
    "bit_length of a non-negative SymInt by forking on its magnitude class"
    for k in range(x.w, 0, -1):
        if x >= (1 << (k - 1)):
            return k
    return 0


def is_sym(x):
    return isinstance(x, (SymInt, SymBool))


def to_n(x, W):
    "IR node of width W for int/SymInt (truncating or extending)"
    if isinstance(x, bool):
        x = builtins.int(x)
    if isinstance(x, builtins.int):
        return ir.const(W, x)
    if isinstance(x, SymBool):
        return ir.zext(x.n, W)
    if x.w == W:
        return x.n
    if x.w < W:
        return x.ext(W)
    return ir.slc(x.n, 0, W)


def from_n(n, signed=False):
    "SymInt (or int) for an IR node interpreted as unsigned"
    if ir.isc(n):
        return n.a
    return SymInt.mk(n, 0, (1 << n.w) - 1)


# ----------------------------------------------------------------------------------------------------
class SymBytes(object):
    "immutable byte string whose elements are ints or SymInt (0..255)"
    __slots__ = ('e',)

    def __new__(cls, elems=()):
        elems = tuple(elems)
        if not any(isinstance(x, SymInt) for x in elems):
            return builtins.bytes(elems)
        o = object.__new__(cls)
        o.e = elems
        return o

    @staticmethod
    def var(name, n):
        if n == 0:
            return b''
        o = object.__new__(SymBytes)
        o.e = tuple(SymInt.var('%s_%d' % (name, i), 8) for i in range(n))
        return o

    def __len__(self): return len(self.e)
    def __iter__(self): return iter(self.e)

    def __getitem__(self, i):
        if isinstance(i, slice):
            if any(isinstance(x, SymInt) for x in (i.start, i.stop, i.step)):
                i = slice(*[concretize(x) if isinstance(x, SymInt) else x for x in (i.start, i.stop, i.step)])
            return SymBytes(self.e[i])
        if isinstance(i, SymInt):
            return _select(self.e, i)
        return self.e[i]

    def __add__(self, o):
        if isinstance(o, (builtins.bytes, bytearray, SymBytes)):
            return SymBytes(self.e + tuple(o))
        return NotImplemented

    def __radd__(self, o):
        if isinstance(o, (builtins.bytes, bytearray)):
            return SymBytes(tuple(o) + self.e)
        return NotImplemented

    def __mul__(self, n):
        return SymBytes(self.e * operator.index(n))
    __rmul__ = __mul__

    def __eq__(self, o):
        if not isinstance(o, (builtins.bytes, bytearray, SymBytes, SymByteArray)):
            return False
        o = tuple(o)
        if len(o) != len(self.e):
            return False
        r = ir.const(1, 1)
        for a, b in zip(self.e, o):
            c = (a == b)
            r = ir.band(r, bnode(c))
        return mkbool(r)

    def __ne__(self, o):
        r = self.__eq__(o)
        return (not r) if isinstance(r, bool) else ~r
    __hash__ = None

    def __bool__(self): return len(self.e) > 0

    def ljust(self, n, fill=b'\0'):
        return SymBytes(self.e + tuple(fill) * max(0, n - len(self.e)))

    def rjust(self, n, fill=b'\0'):
        return SymBytes(tuple(fill) * max(0, n - len(self.e)) + self.e)

    def join(self, seq):
        out = []
        for k, s in enumerate(seq):
            if k:
                out.extend(self.e)
            out.extend(_as_byteseq(s))
        return SymBytes(out)

    def hex(self):
        return bytes_concretize(self).hex()

    def rstrip(self, chars=None):
        cs = tuple(chars) if chars is not None else tuple(b' \t\n\r\x0b\x0c')
        e = list(self.e)
        while e:
            hit = False
            for c in cs:
                if e[-1] == c:        # forks when symbolic
                    hit = True
                    break
            if not hit:
                break
            e.pop()
        return SymBytes(e)

    def lstrip(self, chars=None):
        cs = tuple(chars) if chars is not None else tuple(b' \t\n\r\x0b\x0c')
        e = list(self.e)
        while e:
            hit = False
            for c in cs:
                if e[0] == c:
                    hit = True
                    break
            if not hit:
                break
            e.pop(0)
        return SymBytes(e)

    def startswith(self, p):
        p = tuple(p)
        return len(p) <= len(self.e) and bool(SymBytes(self.e[:len(p)]) == bytes_or_sym(p))

    def endswith(self, p):
        p = tuple(p)
        return len(p) <= len(self.e) and bool(SymBytes(self.e[len(self.e) - len(p):]) == bytes_or_sym(p))

    def __repr__(self):
        return 'SymBytes<%d>' % len(self.e)

    def __reversed__(self):
        return reversed(self.e)


def _as_byteseq(s):
    if isinstance(s, (builtins.bytes, bytearray, SymBytes)):
        return tuple(s)
    if isinstance(s, (SymInt, builtins.int)):
        raise TypeError('sequence item: expected a bytes-like object, int found')
    raise TypeError('sequence item: expected a bytes-like object, %s found' % type(s).__name__)


def bytes_or_sym(t):
    return SymBytes(t)


def bytes_concretize(b):
    return builtins.bytes([concretize(x) for x in b])


def sym_bytes_eq(a, b):
    "equality of two byte strings as bool/SymBool (a or b may be plain bytes)"
    if isinstance(a, SymBytes):
        return a == b
    if isinstance(b, SymBytes):
        return b == a
    return a == b


# ----------------------------------------------------------------------------------------------------
# builtin shims injected into the instrumented modules
class _IntShim(object):
    def __call__(self, x=0, *a):
        if a:
            if isinstance(x, (SymBytes, SymInt)):
                raise Leak('int(symbolic, base)')
            return builtins.int(x, *a)
        if isinstance(x, SymInt):
            return x
        if isinstance(x, SymBool):
            return SymInt(x.n, 0, 1)
        if isinstance(x, (builtins.int, str, builtins.bytes, float)):
            return builtins.int(x)
        f = getattr(type(x), '__int__', None)
        if f is not None:
            return f(x)
        f = getattr(type(x), '__index__', None)
        if f is not None:
            return f(x)
        return builtins.int(x)

    def __instancecheck__(self, o):
        return isinstance(o, (builtins.int, SymInt))

    def __getattr__(self, name):
        return getattr(builtins.int, name)


sx_int = _IntShim()


class _BytesShim(object):
    def __call__(self, x=b'', *a):
        if a:
            return builtins.bytes(x, *a)
        if isinstance(x, SymBytes):
            return x
        if isinstance(x, SymInt):
            return builtins.bytes(concretize(x))
        if isinstance(x, builtins.int):
            return builtins.bytes(x)
        if isinstance(x, (builtins.bytes, bytearray)):
            return builtins.bytes(x)
        if isinstance(x, str):
            return builtins.bytes(x)       # raises TypeError like the builtin
        f = getattr(type(x), '__bytes__', None)
        if f is not None and not isinstance(x, (list, tuple)):
            return f(x)
        xs = list(x)
        for v in xs:
            if isinstance(v, SymInt):
                if v.lo < 0 or v.hi > 255:
                    if (v < 0) | (v > 255):
                        raise ValueError('bytes must be in range(0, 256)')
            elif not isinstance(v, builtins.int):
                vv = getattr(type(v), '__index__', None)
                if vv is None:
                    raise TypeError("'%s' object cannot be interpreted as an integer" % type(v).__name__)
        xs = [v if isinstance(v, (builtins.int, SymInt)) else operator.index(v) for v in xs]
        xs = [SymInt.mk(ir.slc(v.n, 0, 8), 0, 255) if isinstance(v, SymInt) and v.w > 8 else v for v in xs]
        return SymBytes(xs)

    def __instancecheck__(self, o):
        return isinstance(o, (builtins.bytes, SymBytes))

    def __getattr__(self, name):
        return getattr(builtins.bytes, name)


sx_bytes = _BytesShim()


class SymByteArray(list):
    "mutable stand-in for a bytearray holding symbolic bytes"
    def __eq__(self, o):
        if isinstance(o, (SymBytes, builtins.bytes, bytearray, SymByteArray)):
            return sym_bytes_eq(SymBytes(list(self)), SymBytes(list(o)) if not isinstance(o, SymBytes) else o)
        return False          # a bytearray never equals a list, tuple or anything else (this object stands for a bytearray)

    def __ne__(self, o):
        r = self.__eq__(o)
        return (not r) if isinstance(r, bool) else ~r
    __hash__ = None

    def __add__(self, o):
        return SymByteArray(list(self) + list(o))

    def __radd__(self, o):
        return SymByteArray(list(o) + list(self))

    def __getitem__(self, i):
        r = list.__getitem__(self, i)
        return SymByteArray(r) if isinstance(i, slice) else r


def sx_bytearray(x=b''):
    x = list(x) if not isinstance(x, builtins.int) else [0] * x
    return SymByteArray(x)        # a mutable list stands for the bytearray (symbolic bytes may be stored into it later)


def sx_isinstance(o, cls):
    if isinstance(cls, tuple):
        return any(sx_isinstance(o, c) for c in cls)
    if cls is sx_int or cls is builtins.int:
        return isinstance(o, (builtins.int, SymInt))
    if cls is sx_bytes or cls is builtins.bytes:
        return isinstance(o, (builtins.bytes, SymBytes))
    return isinstance(o, cls)


def sx_min(*a, **kw):
    if kw:
        return builtins.min(*a, **kw)
    if len(a) == 1:
        a = tuple(a[0])
    r = a[0]
    for x in a[1:]:
        c = x < r
        r = ite(c, x, r) if isinstance(c, SymBool) else (x if c else r)
    return r


def sx_max(*a, **kw):
    if kw:
        return builtins.max(*a, **kw)
    if len(a) == 1:
        a = tuple(a[0])
    r = a[0]
    for x in a[1:]:
        c = x > r
        r = ite(c, x, r) if isinstance(c, SymBool) else (x if c else r)
    return r


def sx_abs(x):
    return abs(x)


def sx_sum(xs, start=0):
    r = start
    for x in xs:
        r = r + x
    return r


class sx_struct(object):
    SZ = {'B': 1, 'H': 2, 'L': 4, 'I': 4, 'Q': 8, 'c': 1, 'b': 1, 'h': 2, 'l': 4, 'i': 4, 'q': 8}
    import struct as _real
    error = _real.error

    @staticmethod
    def _parse(fmt):
        end = '<'
        if fmt[0] in '<>=@!':
            end = {'<': '<', '>': '>', '!': '>', '=': '<', '@': '<'}[fmt[0]]
            fmt = fmt[1:]
        items = []
        num = ''
        for ch in fmt:
            if ch.isdigit():
                num += ch
            else:
                items.extend([ch] * (builtins.int(num) if num else 1))
                num = ''
        return end, items

    @staticmethod
    def calcsize(fmt):
        return sx_struct._real.calcsize(fmt)

    @staticmethod
    def unpack(fmt, data):
        if isinstance(data, (builtins.bytes, bytearray)):
            return sx_struct._real.unpack(fmt, data)
        end, items = sx_struct._parse(fmt)
        tot = sum(sx_struct.SZ[c] for c in items)
        if tot != len(data):
            raise sx_struct.error('unpack requires a buffer of %d bytes' % tot)
        out = []
        p = 0
        for c in items:
            if c not in 'BHLIQ':
                raise Leak('struct.unpack %r of symbolic data' % c)
            n = sx_struct.SZ[c]
            bs = data.e[p:p + n]
            p += n
            if end == '<':
                bs = bs[::-1]
            v = 0
            for b in bs:
                v = (v << 8) | b
            out.append(v)
        return tuple(out)

    @staticmethod
    def pack(fmt, *vals):
        if not any(isinstance(v, SymInt) for v in vals):
            return sx_struct._real.pack(fmt, *vals)
        end, items = sx_struct._parse(fmt)
        out = []
        for c, v in zip(items, vals):
            if c not in 'BHLIQ':
                raise Leak('struct.pack %r of symbolic data' % c)
            n = sx_struct.SZ[c]
            if isinstance(v, SymInt) and (v.lo < 0 or v.hi >= (1 << (8 * n))):
                if (v < 0) | (v >= (1 << (8 * n))):
                    raise sx_struct.error('argument out of range')
            bs = [(v >> (8 * i)) & 0xff for i in range(n)]
            if end == '>':
                bs = bs[::-1]
            out.extend(bs)
        return SymBytes(out)


class sx_BytesIO(object):
    def __init__(self, data=b''):
        if not isinstance(data, (builtins.bytes, bytearray, SymBytes)):
            raise TypeError("a bytes-like object is required, not '%s'" % type(data).__name__)
        self.d = data
        self.p = 0

    def read(self, n=-1):
        if n is None or n < 0:
            n = len(self.d) - self.p
        r = self.d[self.p:self.p + n]
        self.p += len(r)
        return r

    def close(self):
        pass


def sx_getitem(a, i):
    ta = type(a)
    if ta in (list, tuple, builtins.bytes, bytearray, range):
        if isinstance(i, slice):
            if any(isinstance(x, SymInt) for x in (i.start, i.stop, i.step)):
                i = slice(*[concretize(x) if isinstance(x, SymInt) else x for x in (i.start, i.stop, i.step)])
            return a[i]
        if type(i) is builtins.int:
            return a[i]
        if not isinstance(i, SymInt):
            f = getattr(type(i), '__index__', None)
            if f is None:
                return a[i]
            i = f(i)
            if not isinstance(i, SymInt):
                return a[i]
        return _select(a, i)
    if ta is dict and isinstance(i, SymInt):
        n = len(a)
        if i.lo >= 0 and i.hi < n and all(k in a for k in range(n)):        # dense integer keys 0..n-1 and index in range: same as a list
            return _select([a[k] for k in range(n)], i)
        return a[concretize(i)]
    return a[i]


def _select(a, i):
    n = len(a)
    if i.lo < -n or i.hi >= n:
        ok = (i >= -n) & (i < n)
        if not ok:
            raise IndexError('index out of range')
    lo, hi = max(i.lo, -n), min(i.hi, n - 1)
    vals = [(k, a[k]) for k in range(lo, hi + 1)]
    if lo == 0 and hi == n - 1 and n >= 4 and n & (n - 1) == 0 and all(type(v) is builtins.int and v >= 0 for _, v in vals):
        r = _linear_select([v for _, v in vals], i)
        if r is not None:
            return r
    if all(isinstance(v, (builtins.int, SymInt)) and not isinstance(v, bool) for _, v in vals):
        r = vals[-1][1]
        for k, v in reversed(vals[:-1]):
            r = ite(i == k, v, r)
        return r
    isint = [isinstance(v, (builtins.int, SymInt)) and not isinstance(v, bool) for _, v in vals]
    if any(isint) and not all(isint) and sum(1 for x in isint if not x) <= 4:
        # a few non-integer entries (e.g. the None at Log[0]): fork on exactly those, ite-chain over the rest
        for (k, v), ok in zip(vals, isint):
            if not ok:
                if (i == k):
                    return v
        rest = [(k, v) for (k, v), ok in zip(vals, isint) if ok]
        r = rest[-1][1]
        for k, v in reversed(rest[:-1]):
            r = ite(i == k, v, r)
        return r
    B = _bits_cls()
    if B is not None and all(isinstance(v, B) for _, v in vals) and len(set(v.size for _, v in vals)) == 1:
        if lo == 0 and hi == n - 1 and n >= 4 and n & (n - 1) == 0 and all(type(v.ival) is builtins.int for _, v in vals):
            r = _linear_select([v.ival for _, v in vals], i)
            if r is not None:
                return B(r, vals[0][1].size)
        r = vals[-1][1].ival
        for k, v in reversed(vals[:-1]):
            r = ite(i == k, v.ival, r)
        return B(r, vals[0][1].size)
    return a[concretize(i)]


def _linear_select(tab, i):
    """table lookup with a symbolic index into a table of constants that is affine over GF(2) in the index bits
    (T[i] = T[0] ^ xor_j i_j*(T[2^j]^T[0]), CHECKED here for every entry): emitted as xor of wired constants, no mux chain"""
    n = len(tab)
    k = n.bit_length() - 1
    t0 = tab[0]
    basis = [tab[1 << j] ^ t0 for j in range(k)]
    for x in range(n):
        v = t0
        for j in range(k):
            if (x >> j) & 1:
                v ^= basis[j]
        if v != tab[x]:
            return None
    w = max(1, max(tab).bit_length())
    node = ir.const(w, t0)
    idx = to_n(i, k)
    for j in range(k):
        if basis[j]:
            node = ir.bitop('xor', node, ir.mask_by_bit(ir.slc(idx, j, 1), basis[j], w))
    return SymInt.mk(node, 0, (1 << w) - 1)


def sx_setitem(a, i, v):
    if type(a) is list and not isinstance(i, slice) and type(i) is not builtins.int:
        if not isinstance(i, SymInt):
            f = getattr(type(i), '__index__', None)
            if f is not None:
                i = f(i)
        if isinstance(i, SymInt):
            n = len(a)
            if i.lo < -n or i.hi >= n:
                ok = (i >= -n) & (i < n)
                if not ok:
                    raise IndexError('list assignment index out of range')
            if i.lo < 0:
                i = concretize(i)
                a[i] = v
                return
            for k in range(max(i.lo, 0), min(i.hi, n - 1) + 1):
                old = a[k]
                if isinstance(old, (builtins.int, SymInt)) and isinstance(v, (builtins.int, SymInt)):
                    a[k] = ite(i == k, v, old)
                else:
                    a[concretize(i)] = v
                    return
            return
    if isinstance(i, slice) and any(isinstance(x, SymInt) for x in (i.start, i.stop, i.step)):
        i = slice(*[concretize(x) if isinstance(x, SymInt) else x for x in (i.start, i.stop, i.step)])
    a[i] = v


def sx_join(sep, seq):
    seq = list(seq)
    if all(isinstance(s, (builtins.bytes, bytearray)) for s in seq):
        return sep.join(seq)
    if len(sep):
        return SymBytes(tuple(sep)).join(seq) if isinstance(SymBytes(tuple(sep)), SymBytes) else _join_plain(sep, seq)
    out = []
    for s in seq:
        out.extend(_as_byteseq(s))
    return SymBytes(out)


def _join_plain(sep, seq):
    out = []
    for k, s in enumerate(seq):
        if k:
            out.extend(sep)
        out.extend(_as_byteseq(s))
    return SymBytes(out)


def sx_divmod(a, b):
    if isinstance(a, SymInt) or isinstance(b, SymInt):
        return (a // b, a % b)
    return divmod(a, b)


def sx_len(x):
    return len(x)


def _idx(x):
    if isinstance(x, builtins.int):
        return x
    if isinstance(x, SymInt):
        return concretize(x)
    f = getattr(type(x), '__index__', None)
    if f is not None:
        r = f(x)
        return concretize(r) if isinstance(r, SymInt) else r
    return x


def sx_range(*a):
    return range(*[_idx(x) for x in a])


def sx_hex(x):
    return hex(concretize(x)) if isinstance(x, SymInt) else hex(x)


def sx_bin(x):
    return bin(concretize(x)) if isinstance(x, SymInt) else bin(x)


def sx_chr(x):
    return chr(concretize(x)) if isinstance(x, SymInt) else chr(x)


def sx_ord(x):
    if isinstance(x, SymBytes) and len(x) == 1:
        return x.e[0]
    return ord(x)


def sx_float(x=0.0):
    if isinstance(x, SymInt):
        raise Leak('float of symbolic')
    return float(x)


class sx_codecs(object):
    import codecs as _real

    @staticmethod
    def encode(data, enc='utf-8', *a):
        if isinstance(data, SymBytes):
            data = bytes_concretize(data)
        return sx_codecs._real.encode(data, enc, *a)

    @staticmethod
    def decode(data, enc='utf-8', *a):
        if isinstance(data, SymBytes):
            data = bytes_concretize(data)
        return sx_codecs._real.decode(data, enc, *a)


def truth(c):
    "python truth value of c as bool or SymBool (no forking)"
    if isinstance(c, SymBool):
        return c
    if isinstance(c, SymInt):
        return c != 0
    if isinstance(c, (bool, builtins.int)) or c is None:
        return bool(c)
    return bool(c)


def _bits_cls():
    import sys
    m = sys.modules.get('crysp.bits')
    return getattr(m, 'Bits', None) if m is not None else None


def merge(c, a, b):
    "ite over ints and crysp Bits of equal size"
    if isinstance(c, bool):
        return a if c else b
    B = _bits_cls()
    if B is not None and isinstance(a, B) and isinstance(b, B):
        if a.size != b.size:
            raise Leak('merge of Bits of different sizes')
        return B(ite(c, a.ival, b.ival), a.size)
    if a is b:
        return a
    return ite(c, a, b)


def sx_in(x, members):
    "x in (constants): static answer from the interval when it decides, otherwise the ordinary (forking) membership test"
    if isinstance(x, SymInt):
        ms = set(members)
        if x.hi - x.lo < 64 and all(v in ms for v in range(x.lo, x.hi + 1)):
            return True
        if all(m < x.lo or m > x.hi for m in ms):
            return False
    return x in members


def sx_unpack(value, n):
    t = tuple(value)
    if len(t) != n:
        raise ValueError('not enough values to unpack' if len(t) < n else 'too many values to unpack (expected %d)' % n)
    return t


def sx_maybe_pos(v):
    "v > 0, except that a symbolic non-negative v answers True without forking (see loader._bits_init_size)"
    if isinstance(v, SymInt) and v.lo >= 0:
        return True
    return v > 0


def sx_ite(test, fa, fb):
    "if-converted `if test: x = fa() else: x = fb()`"
    c = truth(test)
    if isinstance(c, bool):
        return fa() if c else fb()
    return merge(c, fa(), fb())


SHIMS = dict(isinstance=sx_isinstance, int=sx_int, bytes=sx_bytes, bytearray=sx_bytearray,
             abs=sx_abs, min=sx_min, max=sx_max, sum=sx_sum, divmod=sx_divmod, range=sx_range,
             hex=sx_hex, bin=sx_bin, chr=sx_chr, ord=sx_ord, float=sx_float,
             __sx_getitem__=sx_getitem, __sx_setitem__=sx_setitem, __sx_join__=sx_join, __sx_ite__=sx_ite, __sx_maybe_pos__=sx_maybe_pos, __sx_in__=sx_in, __sx_unpack__=sx_unpack)
