"""IR rule lemmas: the canonical layer (symx/ir.py) rewrites terms while it builds them.  Here every constructor is checked
against the naive z3 semantics of the operation it implements: random expression trees over small widths are built twice -
through the IR constructors (then lowered) and directly as z3 bit-vector terms - and z3 must prove the two equal for ALL values
of the variables (unsat of the disequality).  The GF(2) normal form (gf2_canon) is checked the same way.
Run: python3-vt -m symx.irlemmas [n] [seed]    (part of MANIFEST.setup_cmd)"""
import sys, random
import z3
from . import ir


def gen(rng, depth, w, vars_):
    "returns (ir node, z3 term) of width w"
    if depth == 0 or rng.random() < 0.15:
        c = rng.random()
        if c < 0.3:
            v = rng.getrandbits(w)
            return ir.const(w, v), z3.BitVecVal(v, w)
        name, vw = rng.choice(vars_)
        n, z = ir.var(vw, name), z3.BitVec(name, vw)
        if vw == w:
            return n, z
        if vw > w:
            lo = rng.randrange(0, vw - w + 1)
            return ir.slc(n, lo, w), z3.Extract(lo + w - 1, lo, z)
        return ir.zext(n, w), z3.ZeroExt(w - vw, z)
    op = rng.choice(['xor', 'and', 'or', 'add', 'addk', 'cat', 'slc', 'shl', 'rot', 'ite', 'not', 'sub', 'mulc', 'sext', 'narrowsum', 'shrsum', 'zextsum'])
    if op in ('xor', 'and', 'or'):
        a, za = gen(rng, depth - 1, w, vars_)
        b, zb = gen(rng, depth - 1, w, vars_)
        return ir.bitop(op, a, b), {'xor': za ^ zb, 'and': za & zb, 'or': za | zb}[op]
    if op == 'add':
        a, za = gen(rng, depth - 1, w, vars_)
        b, zb = gen(rng, depth - 1, w, vars_)
        return ir.add(w, [(a, 1), (b, 1)]), za + zb
    if op == 'sub':
        a, za = gen(rng, depth - 1, w, vars_)
        b, zb = gen(rng, depth - 1, w, vars_)
        return ir.add(w, [(a, 1), (b, -1)]), za - zb
    if op == 'addk':
        a, za = gen(rng, depth - 1, w, vars_)
        b, zb = gen(rng, depth - 1, w, vars_)
        k1, k2, c = rng.randrange(1, 9), rng.randrange(-4, 5), rng.getrandbits(w)
        return ir.add(w, [(a, k1), (b, k2)], c), za * z3.BitVecVal(k1, w) + zb * z3.BitVecVal(k2 % (1 << w), w) + z3.BitVecVal(c, w)
    if op == 'mulc':
        a, za = gen(rng, depth - 1, w, vars_)
        k = rng.choice([1, 2, 4, 8, 3, 5])
        return ir.mul(a, ir.const(w, k)), za * z3.BitVecVal(k, w)
    if op == 'cat' and w >= 2:
        w1 = rng.randrange(1, w)
        a, za = gen(rng, depth - 1, w1, vars_)
        b, zb = gen(rng, depth - 1, w - w1, vars_)
        return ir.cat([a, b]), z3.Concat(zb, za)
    if op == 'slc':
        W = w + rng.randrange(0, 5)
        a, za = gen(rng, depth - 1, W, vars_)
        lo = rng.randrange(0, W - w + 1)
        return ir.slc(a, lo, w), z3.Extract(lo + w - 1, lo, za)
    if op == 'shl' and w >= 2:
        k = rng.randrange(1, w)
        a, za = gen(rng, depth - 1, w - k, vars_)
        return ir.shl(a, k), z3.Concat(za, z3.BitVecVal(0, k))
    if op == 'rot':
        a, za = gen(rng, depth - 1, w, vars_)
        k = rng.randrange(0, w + 1)
        kk = k % w
        return ir.rotl(a, k), (za if kk == 0 else z3.Concat(z3.Extract(w - kk - 1, 0, za), z3.Extract(w - 1, w - kk, za)))
    if op == 'ite':
        c, zc = gen(rng, depth - 1, 1, vars_)
        a, za = gen(rng, depth - 1, w, vars_)
        if rng.random() < 0.5:
            k = rng.getrandbits(w)
            b, zb = ir.bitop('xor', a, ir.const(w, k)), za ^ z3.BitVecVal(k, w)
        else:
            b, zb = gen(rng, depth - 1, w, vars_)
        return ir.ite(c, a, b), z3.If(zc == 1, za, zb)
    if op == 'not':
        a, za = gen(rng, depth - 1, w, vars_)
        return ir.bnot(a), ~za
    if op == 'sext' and w >= 2:
        w1 = rng.randrange(1, w)
        a, za = gen(rng, depth - 1, w1, vars_)
        return ir.sext(a, w), z3.SignExt(w - w1, za)
    if op == 'narrowsum':
        # slice of a wider sum (exercises narrowing and re-joining of separately narrowed slices)
        W = w + rng.randrange(1, 5)
        a, za = gen(rng, depth - 1, W, vars_)
        b, zb = gen(rng, depth - 1, W, vars_)
        s, zs = ir.add(W, [(a, 1), (b, 1)]), za + zb
        if w >= 2 and rng.random() < 0.5:
            w1 = rng.randrange(1, w)
            return ir.cat([ir.slc(s, 0, w1), ir.slc(s, w1, w - w1)]), z3.Extract(w - 1, 0, zs)
        lo = rng.randrange(0, W - w + 1)
        return ir.slc(s, lo, w), z3.Extract(lo + w - 1, lo, zs)
    if op == 'zextsum' and w >= 4:
        # sums whose syntactic bound stays below the top bit (narrowed to their own width), zero-extended and added again
        w1 = rng.randrange(2, w)
        u1, u2 = rng.randrange(1, w1), rng.randrange(1, w1)
        a, za = gen(rng, depth - 1, u1, vars_)
        b, zb = gen(rng, depth - 1, u2, vars_)
        c = rng.getrandbits(max(1, w1 - 2)) if rng.random() < 0.5 else 0
        k = rng.choice([1, 1, 2, 3])
        s1 = ir.add(w1, [(ir.zext(a, w1), 1), (ir.zext(b, w1), k)], c)
        z1 = z3.ZeroExt(w1 - u1, za) + z3.ZeroExt(w1 - u2, zb) * z3.BitVecVal(k, w1) + z3.BitVecVal(c, w1)
        d, zd = gen(rng, depth - 1, w, vars_)
        k2 = rng.choice([1, 2, 5])
        return ir.add(w, [(ir.zext(s1, w), k2), (d, 1)]), z3.ZeroExt(w - w1, z1) * z3.BitVecVal(k2, w) + zd
    if op == 'shrsum':
        # sum of terms with common low zero bits, sliced above them
        j = rng.randrange(1, 4)
        a, za = gen(rng, depth - 1, w, vars_)
        b, zb = gen(rng, depth - 1, w, vars_)
        return _shrsum(rng, a, za, b, zb, w, j)
    return gen(rng, 0, w, vars_)


def _shrsum(rng, a, za, b, zb, w, j):
    W = w + j
    k = rng.choice([1, 2, 3])
    c = rng.getrandbits(w) << j
    n = ir.add(W, [(ir.shl(a, j), 1), (ir.shl(b, j), k)], c)
    z = z3.Concat(za, z3.BitVecVal(0, j)) + z3.Concat(zb, z3.BitVecVal(0, j)) * z3.BitVecVal(k, W) + z3.BitVecVal(c, W)
    return ir.slc(n, j, w), z3.Extract(W - 1, j, z)


def main(n=400, seed=1, second=True):
    rng = random.Random(seed)
    vars_ = [('a', 8), ('b', 8), ('c', 5), ('d', 1), ('e', 12), ('f', 3)]
    bad = 0
    tot = 0
    s = z3.Solver()
    s.set('timeout', 20000)
    smt = ['(set-logic QF_BV)'] + ['(declare-const %s (_ BitVec %d))' % v for v in vars_]
    for i in range(n):
        ir.reset()
        w = rng.choice([1, 2, 3, 4, 7, 8, 9, 12])
        node, z = gen(rng, rng.randrange(1, 5), w, vars_)
        for label, nd in (('constructors', node), ('gf2_canon', ir.gf2_canon(node))):
            tot += 1
            s.push()
            s.add(ir.lower(nd) != z)
            smt += ['(push 1)', '(assert %s)' % (ir.lower(nd) != z).sexpr(), '(check-sat)', '(pop 1)']
            r = str(s.check())
            if r != 'unsat':
                bad += 1
                print('IR RULE LEMMA FAILED (%s, case %d, %s): %s' % (label, i, r, ir.describe(nd, 4)))
                if r == 'sat':
                    print('   model', s.model())
            s.pop()
    print('  symx.irlemmas: %d rewrite obligations over %d random terms, %d failed' % (tot, n, bad))
    if second and not bad:
        bad += second_solver(smt, tot)
    return 1 if bad else 0


def second_solver(smt, tot):
    """the same obligations, as SMT-LIB text, through cvc5 (an independent solver): every answer must be unsat.
    Skipped with a note when no cvc5 binary is on PATH."""
    import shutil, subprocess, tempfile, os
    exe = shutil.which('cvc5')
    if exe is None:
        print('  symx.irlemmas: cvc5 not found - second-solver pass skipped')
        return 0
    fd, path = tempfile.mkstemp(suffix='.smt2')
    try:
        with os.fdopen(fd, 'w') as f:
            f.write('\n'.join(smt) + '\n')
        try:
            out = subprocess.run([exe, '--incremental', path], stdout=subprocess.PIPE, stderr=subprocess.STDOUT, timeout=600).stdout.decode()
        except subprocess.TimeoutExpired:
            print('  symx.irlemmas: cvc5 did not finish in 600 s - second-solver pass INCONCLUSIVE')
            return 1
    finally:
        os.unlink(path)
    ans = [l.strip() for l in out.splitlines() if l.strip()]
    nun = sum(1 for l in ans if l == 'unsat')
    other = [l for l in ans if l != 'unsat']
    print('  symx.irlemmas: cvc5 agrees on %d/%d obligations%s' % (nun, tot, '' if not other else '; other output: %s' % other[:3]))
    return 0 if (nun == tot and not other) else 1


if __name__ == '__main__':
    a = sys.argv[1:]
    sys.exit(main(int(a[0]) if a else 400, int(a[1]) if len(a) > 1 else 1))
