"""Reusable summaries and UF stubs for the instrumented crysp modules (engine side only)."""
import builtins
from . import ir, core
from .core import SymInt, SymBytes
from .harness import uf_call, patched


def rev8(b):
    "summary of crysp.bits.reverse_byte (lemma: case *.reverse_byte): bit reversal as a pure bit permutation"
    if isinstance(b, builtins.int):
        r = 0
        for i in range(8):
            r |= ((b >> i) & 1) << (7 - i)
        return r
    n = core.to_n(b, 8)
    return core.from_n(ir.cat([ir.slc(n, 7 - i, 1) for i in range(8)]))


def reverse_byte_patches():
    import crysp.bits as cb
    return [(cb, 'reverse_byte', rev8)]


def bits_uf(name, w, concrete, nargs=3):
    "stub for a crysp leaf taking `nargs` Bits of width w and returning Bits of width w"
    from crysp.bits import Bits

    def f(*xs):
        assert len(xs) == nargs
        vals = []
        for x in xs:
            assert isinstance(x, Bits) and x.size == w, 'UF stub %s called outside the domain its lemma covers' % name
            vals.append(x.ival)
        return Bits(uf_call(name, w, vals, [w] * nargs, concrete), w)
    return f


def to_symbytes(xs):
    "list of byte values (ints / SymInts) -> bytes or SymBytes"
    return SymBytes(xs)
