"""Import hook: loads crysp.* from the current working tree of /repo (or $VERIF_REPO), applies a small
semantics-preserving AST instrumentation and executes the result in memory.  Nothing under /repo is written."""
import ast, sys, os, importlib.abc, importlib.util, types, hashlib, builtins
from . import core

REPO = os.environ.get('VERIF_REPO', '/repo')
SOURCES = {}        # module name -> (path, sha256 of source)
IFCONVERTED = {}    # module name -> qualnames where an if-conversion was applied


# functions whose `if c: x = e1 [else: x = e2]` statements (single assignment per arm, same target, pure right-hand
# sides - checked by reading; re-validated every run by the translator validation) are if-converted:
# both arms are evaluated and merged with ite when the condition is symbolic.  Pattern not found => Leak at import.
IFCONV = {
    'crysp.crc': ('crc_table', 'crc_back_table', 'crc32_fix'),
    'crysp.bits': ('Bits.__setitem__', 'Bits.signextend'),
    'crysp.tlsh': ('distance', 'distance.diffmod', 'TLSH.final'),
    'crysp.nilsimsa': ('Nilsimsa.digest',),
}


class Tx(ast.NodeTransformer):
    def __init__(self, modname=''):
        self.modname = modname
        self.stack = []
        self.converted = []

    def visit_ClassDef(self, node):
        self.stack.append(node.name)
        self.generic_visit(node)
        self.stack.pop()
        return node

    def visit_FunctionDef(self, node):
        self.stack.append(node.name)
        self.generic_visit(node)
        self.stack.pop()
        return node

    def _ifconv_target(self, st):
        "single Assign/AugAssign to a Name or Attribute -> (key, target, value expression)"
        if isinstance(st, ast.Assign) and len(st.targets) == 1 and isinstance(st.targets[0], (ast.Name, ast.Attribute, ast.Subscript)):
            t = st.targets[0]
            return ast.dump(t), t, st.value
        if isinstance(st, ast.AugAssign) and isinstance(st.target, ast.Subscript):
            # x[i] op= e  (i pure): both arms evaluate x[i]
            t = st.target
            load = ast.Subscript(t.value, t.slice, ast.Load())
            return ast.dump(ast.Subscript(t.value, t.slice, ast.Store())), t, ast.BinOp(load, st.op, st.value)
        if isinstance(st, ast.AugAssign) and isinstance(st.target, (ast.Name, ast.Attribute)):
            t = st.target
            load = ast.Name(t.id, ast.Load()) if isinstance(t, ast.Name) else ast.Attribute(t.value, t.attr, ast.Load())
            return ast.dump(ast.Name(t.id, ast.Store()) if isinstance(t, ast.Name) else ast.Attribute(t.value, t.attr, ast.Store())), t, ast.BinOp(load, st.op, st.value)
        return None

    def _try_ifconv(self, node, nested=False):
        qn = '.'.join(self.stack)
        if qn not in IFCONV.get(self.modname, ()):
            return None
        if len(node.body) != 1 or len(node.orelse) > 1:
            return None
        a = self._ifconv_target(node.body[0])
        if a is None:
            return None
        key, tgt, e1 = a
        def as_load(t):
            if isinstance(t, ast.Name): return ast.Name(t.id, ast.Load())
            if isinstance(t, ast.Attribute): return ast.Attribute(t.value, t.attr, ast.Load())
            return ast.Subscript(t.value, t.slice, ast.Load())

        def as_store(t):
            if isinstance(t, ast.Name): return ast.Name(t.id, ast.Store())
            if isinstance(t, ast.Attribute): return ast.Attribute(t.value, t.attr, ast.Store())
            return ast.Subscript(t.value, t.slice, ast.Store())
        if node.orelse:
            other = node.orelse[0]
            if isinstance(other, ast.If):
                other = self._try_ifconv(other, nested=True)      # elif chain: convert the inner statement first
                if other is None:
                    return None
            b = self._ifconv_target(other)
            if b is None or b[0] != key:
                return None
            e2 = b[2]
        else:
            e2 = as_load(tgt)
        store = as_store(tgt)
        lam = lambda e: ast.Lambda(ast.arguments(posonlyargs=[], args=[], kwonlyargs=[], kw_defaults=[], defaults=[]), e)
        call = ast.Call(func=ast.Name('__sx_ite__', ast.Load()), args=[node.test, lam(e1), lam(e2)], keywords=[])
        self.converted.append(qn)
        new = ast.copy_location(ast.Assign([store], call), node)
        ast.fix_missing_locations(new)
        return new

    def visit_Subscript(self, node):
        self.generic_visit(node)
        if isinstance(node.ctx, ast.Load):
            return ast.copy_location(ast.Call(func=ast.Name('__sx_getitem__', ast.Load()),
                                              args=[node.value, self._idx(node.slice)], keywords=[]), node)
        return node

    def _idx(self, s):
        if isinstance(s, ast.Slice):
            n = lambda x: x if x is not None else ast.Constant(None)
            return ast.Call(func=ast.Name('slice', ast.Load()), args=[n(s.lower), n(s.upper), n(s.step)], keywords=[])
        if isinstance(s, ast.Tuple):
            return ast.Tuple([self._idx(e) for e in s.elts], ast.Load())
        return s

    def visit_Assign(self, node):
        self.generic_visit(node)
        if len(node.targets) == 1 and isinstance(node.targets[0], (ast.Tuple, ast.List)) and \
                any(isinstance(e, ast.Subscript) for e in node.targets[0].elts) and \
                not any(isinstance(e, ast.Starred) for e in node.targets[0].elts):
            # a[i], b[j] = x, y   ->  t = unpack(value); a[i] = t[0]; b[j] = t[1]   (same evaluation order as Python)
            elts = node.targets[0].elts
            tmp = '__sx_t%d' % len(self.stack)
            out = [ast.Assign([ast.Name(tmp, ast.Store())], ast.Call(func=ast.Name('__sx_unpack__', ast.Load()),
                                                                      args=[node.value, ast.Constant(len(elts))], keywords=[]))]
            for k, e in enumerate(elts):
                val = ast.Subscript(ast.Name(tmp, ast.Load()), ast.Constant(k), ast.Load())
                if isinstance(e, ast.Subscript):
                    out.append(ast.Expr(ast.Call(func=ast.Name('__sx_setitem__', ast.Load()), args=[e.value, self._idx(e.slice), val], keywords=[])))
                else:
                    out.append(ast.Assign([e], val))
            return [ast.copy_location(x, node) for x in out]
        if len(node.targets) == 1 and isinstance(node.targets[0], ast.Subscript):
            t = node.targets[0]
            return ast.copy_location(ast.Expr(ast.Call(func=ast.Name('__sx_setitem__', ast.Load()),
                                                       args=[t.value, self._idx(t.slice), node.value], keywords=[])), node)
        return node

    def visit_AugAssign(self, node):
        self.generic_visit(node)
        if isinstance(node.target, ast.Subscript):
            t = node.target
            A, I = ast.Name('__sx_a', ast.Store()), ast.Name('__sx_i', ast.Store())
            s1 = ast.Assign([A], t.value)
            s2 = ast.Assign([I], self._idx(t.slice))
            get = ast.Call(func=ast.Name('__sx_getitem__', ast.Load()),
                           args=[ast.Name('__sx_a', ast.Load()), ast.Name('__sx_i', ast.Load())], keywords=[])
            s3 = ast.Expr(ast.Call(func=ast.Name('__sx_setitem__', ast.Load()),
                                   args=[ast.Name('__sx_a', ast.Load()), ast.Name('__sx_i', ast.Load()),
                                         ast.BinOp(get, node.op, node.value)], keywords=[]))
            return [ast.copy_location(s, node) for s in (s1, s2, s3)]
        return node

    @staticmethod
    def _pure(n):
        if isinstance(n, (ast.Name, ast.Constant)):
            return True
        if isinstance(n, ast.Attribute):
            return Tx._pure(n.value)
        if isinstance(n, ast.UnaryOp) and isinstance(n.op, ast.Not):
            return Tx._pure(n.operand)
        if isinstance(n, ast.Compare):
            return all(isinstance(o, (ast.Is, ast.IsNot)) for o in n.ops) and Tx._pure(n.left) and \
                all(Tx._pure(c) for c in n.comparators)
        return False

    @staticmethod
    def _isnone_test(n):
        return isinstance(n, ast.Compare) and all(isinstance(o, (ast.Is, ast.IsNot)) for o in n.ops) and Tx._pure(n)

    def _reorder(self, test):
        """in a truth-test context, evaluate side-effect-free `x is None` operands of and/or first
        (same truth value, avoids a needless fork on a symbolic payload)"""
        if isinstance(test, ast.BoolOp):
            p = [v for v in test.values if Tx._isnone_test(v)]
            o = [v for v in test.values if not Tx._isnone_test(v)]
            if p and o and all(Tx._safe(v) for v in o):
                test.values = p + o
        return test

    @staticmethod
    def _safe(n):
        "expression that cannot raise or have side effects apart from comparisons on attributes/names"
        if isinstance(n, (ast.Name, ast.Constant)):
            return True
        if isinstance(n, ast.Attribute):
            return Tx._safe(n.value)
        if isinstance(n, ast.Compare):
            return Tx._safe(n.left) and all(Tx._safe(c) for c in n.comparators)
        if isinstance(n, ast.UnaryOp):
            return Tx._safe(n.operand)
        return False

    def _bits_init_size(self, node):
        """Bits.__init__:  `if self.ival>0 and (size is None): self.size = self.ival.bit_length()`.
        For ival == 0 the body is a no-op (bit_length 0 -> size 0 = the initial state), so with a symbolic non-negative
        ival the body is simply executed (no fork on ival > 0).  Shape-checked; anything else is left alone."""
        if '.'.join(self.stack) != 'Bits.__init__' or self.modname != 'crysp.bits':
            return False
        t = node.test
        if not (isinstance(t, ast.BoolOp) and isinstance(t.op, ast.And) and len(t.values) == 2 and not node.orelse and len(node.body) == 1):
            return False
        src = ast.unparse(node)
        if src.replace(' ', '') != 'ifself.ival>0andsizeisNone:\nself.size=self.ival.bit_length()'.replace(' ', ''):
            return False
        gt = t.values[0]
        t.values = [t.values[1], ast.Call(func=ast.Name('__sx_maybe_pos__', ast.Load()), args=[gt.left], keywords=[])]
        self.converted.append('Bits.__init__(size-from-value)')
        return True

    def visit_If(self, node):
        # if-conversion is attempted on the ORIGINAL statement; the resulting assignment is then instrumented like any other
        r = self._try_ifconv(node)
        if r is not None:
            return self.visit(r)
        self.generic_visit(node)
        if self._bits_init_size(node):
            return node
        node.test = self._reorder(node.test)
        return node

    def visit_While(self, node):
        self.generic_visit(node)
        node.test = self._reorder(node.test)
        return node

    def visit_IfExp(self, node):
        self.generic_visit(node)
        if '.'.join(self.stack) in IFCONV.get(self.modname, ()):
            lam = lambda e: ast.Lambda(ast.arguments(posonlyargs=[], args=[], kwonlyargs=[], kw_defaults=[], defaults=[]), e)
            self.converted.append('.'.join(self.stack) + '(ifexp)')
            return ast.copy_location(ast.Call(func=ast.Name('__sx_ite__', ast.Load()), args=[node.test, lam(node.body), lam(node.orelse)], keywords=[]), node)
        node.test = self._reorder(node.test)
        return node

    def visit_Compare(self, node):
        self.generic_visit(node)
        # `x in (c1, c2, ...)` with constant members: decided from x's interval when possible (no fork), same truth value
        if len(node.ops) == 1 and isinstance(node.ops[0], (ast.In, ast.NotIn)) and isinstance(node.comparators[0], ast.Tuple) and \
                all(isinstance(e, ast.Constant) and isinstance(e.value, int) for e in node.comparators[0].elts):
            call = ast.Call(func=ast.Name('__sx_in__', ast.Load()), args=[node.left, node.comparators[0]], keywords=[])
            if isinstance(node.ops[0], ast.NotIn):
                call = ast.UnaryOp(ast.Not(), call)
            return ast.copy_location(call, node)
        return node

    def visit_Call(self, node):
        self.generic_visit(node)
        f = node.func
        if isinstance(f, ast.Attribute) and f.attr == 'join' and isinstance(f.value, ast.Constant) and \
                isinstance(f.value.value, builtins.bytes):
            return ast.copy_location(ast.Call(func=ast.Name('__sx_join__', ast.Load()),
                                              args=[f.value] + node.args, keywords=[]), node)
        return node


class Finder(importlib.abc.MetaPathFinder, importlib.abc.Loader):
    def __init__(self, root, pkg='crysp'):
        self.root, self.pkg = root, pkg

    def find_spec(self, name, path, target=None):
        if name != self.pkg and not name.startswith(self.pkg + '.'):
            return None
        rel = name.split('.')
        p = os.path.join(self.root, *rel)
        if os.path.isdir(p):
            return importlib.util.spec_from_file_location(name, os.path.join(p, '__init__.py'), loader=self,
                                                          submodule_search_locations=[p])
        if os.path.exists(p + '.py'):
            return importlib.util.spec_from_file_location(name, p + '.py', loader=self)
        return None

    def create_module(self, spec):
        return None

    def exec_module(self, module):
        fn = module.__spec__.origin
        src = open(fn).read()
        SOURCES[module.__name__] = (fn, hashlib.sha256(src.encode()).hexdigest()[:16])
        tree = ast.parse(src, fn)
        tx = Tx(module.__name__)
        tree = tx.visit(tree)
        IFCONVERTED[module.__name__] = list(tx.converted)
        ast.fix_missing_locations(tree)
        code = compile(tree, fn, 'exec')
        module.__dict__.update(core.SHIMS)
        exec(code, module.__dict__)
        d = module.__dict__
        if isinstance(d.get('struct'), types.ModuleType):
            d['struct'] = core.sx_struct
        if 'BytesIO' in d:
            d['BytesIO'] = core.sx_BytesIO
        if isinstance(d.get('codecs'), types.ModuleType):
            d['codecs'] = core.sx_codecs
        # `from crysp.bits import *` re-exports struct: keep the shim everywhere
        for k in ('isinstance', 'int', 'bytes'):
            d[k] = core.SHIMS[k]


_installed = [False]


def install(root=None):
    root = root or REPO
    os.environ.setdefault('BDCHT_CRYSP_VERIF', '1')
    for m in [k for k in sys.modules if k == 'crysp' or k.startswith('crysp.')]:
        del sys.modules[m]
    if not _installed[0]:
        sys.meta_path.insert(0, Finder(root))
        _installed[0] = True
    sys.setrecursionlimit(20000)


def functions_encoded(modnames):
    "source identity of the crysp modules a check loaded (for evidence)"
    return [{'module': m, 'path': SOURCES[m][0], 'sha256_16': SOURCES[m][1]} for m in modnames if m in SOURCES]
