"""Hash-consed canonical bit-vector term IR (unsigned words of fixed width >= 1).

Both the symbolic run of the real crysp code and the reference models build their values through the
constructors of this module, so equal computations tend to become the *identical* node.  Nothing here
judges a property: every obligation is lowered to z3 (`lower`) and decided by `Solver.check()`.
The rewrites performed by the constructors are themselves proved by z3 on the raw lowering
(see symx/irlemmas.py).

Node kinds
  const(w,v) var(w,name) uf(w,fname,args)
  cat        tuple of segments LSB first: (node_id, lo, len) | ('c', value, len)
  add        ((id,coeff)...sorted, const)   n-ary modular sum at width w
  and/or/xor ((ids...sorted), const)        n-ary word-level
  ite(c,a,b) c is a 1-bit node
  mul urem udiv (a,b)     ult ule slt sle eq (a,b) -> 1 bit      sext(a) to width w
"""
import z3

_TAB = {}
_NODES = []


class N(object):
    __slots__ = ('id', 'k', 'w', 'a', '_z')

    def __repr__(self):
        return 'N%d<%s/%d>' % (self.id, self.k, self.w)


def reset():
    "forget every node (call between independent shapes to bound memory)"
    _TAB.clear()
    del _NODES[:]
    UF.clear()
    _NARROW.clear()
    _LZ.clear()
    _SLC.clear()
    _GF2.clear()
    _EXACT.clear()


def nnodes():
    return len(_NODES)


def _mk(k, w, a):
    key = (k, w, a)
    n = _TAB.get(key)
    if n is None:
        n = N()
        n.id = len(_NODES); n.k = k; n.w = w; n.a = a; n._z = None
        _TAB[key] = n
        _NODES.append(n)
    return n


def const(w, v):
    assert w > 0
    return _mk('const', w, v & ((1 << w) - 1))


def var(w, name):
    assert w > 0
    return _mk('var', w, name)


UF_INVERSE = {}      # fname -> name of its inverse function (ground rewrite f(finv(t)) -> t, justified by a lemma of the check)


def uf(w, fname, args):
    args = [gf2_canon(x) for x in args]        # linear wiring inside arguments is normalised, so equal arguments coincide
    inv = UF_INVERSE.get(fname)
    if inv is not None and len(args) == 1 and args[0].k == 'uf' and args[0].a[0] == inv and len(args[0].a) == 2:
        inner = node(args[0].a[1])
        if inner.w == w:
            return inner
    return _mk('uf', w, (fname,) + tuple(x.id for x in args))


def isc(n):
    return n.k == 'const'


def node(i):
    return _NODES[i]


TRUE = None
FALSE = None


def true():
    return const(1, 1)


def false():
    return const(1, 0)


# ---- segments -------------------------------------------------------------------------------------
def segs(n):
    if n.k == 'cat':
        return list(n.a)
    if n.k == 'const':
        return [('c', n.a, n.w)]
    return [(n.id, 0, n.w)]


def cat_segs(sl):
    "canonicalise a segment list (LSB first) into a node"
    out = []
    sl2 = []
    for s in sl:
        if s[0] != 'c' and s[2]:
            b = node(s[0])
            if b.k == 'add' and s[1] > 0:
                # all summands are multiples of 2^j: the sum shifted right by j is the sum of the shifted summands
                j = min(low_zeros(b), s[1])
                if j > 0:
                    m = _shift_add(b, j)
                    sl2.extend(segs(slc(m, s[1] - j, s[2])))
                    continue
            if b.k == 'add' and s[1] + s[2] < b.w:
                # a slice of a modular sum only depends on the low bits of the summands
                m = narrow_add(b, s[1] + s[2])
                sl2.extend(_slice_segs(segs(m), s[1], s[2]))
                continue
        sl2.append(s)
    for s in sl2:
        if s[2] == 0:
            continue
        if out:
            p = out[-1]
            if s[0] == 'c' and p[0] == 'c':
                out[-1] = ('c', p[1] | (s[1] << p[2]), p[2] + s[2])
                continue
            if s[0] != 'c' and p[0] == s[0] and p[1] + p[2] == s[1]:
                out[-1] = (p[0], p[1], p[2] + s[2])
                continue
        out.append(s)
        # re-join slices of one modular sum that were narrowed separately: (add_k)[lo:k] preceded by the top bits of
        # the same sum narrowed to lo bits is one slice of add_k
        while len(out) >= 2 and out[-1][0] != 'c' and out[-2][0] != 'c':
            B = node(out[-1][0])
            lo, ln = out[-1][1], out[-1][2]
            if B.k != 'add' or lo == 0 or lo + ln != B.w:
                break
            top = segs(narrow_add(B, lo))[-1]
            q = out[-2]
            if top[0] == 'c' or q[0] != top[0] or q[1] + q[2] != top[1] + top[2] or q[1] < top[1]:
                break
            out[-2:] = [(B.id, lo - q[2], ln + q[2])]
    w = sum(s[2] for s in out)
    assert w > 0
    if len(out) == 1:
        s = out[0]
        if s[0] == 'c':
            return const(w, s[1])
        b = node(s[0])
        if s[1] == 0 and s[2] == b.w:
            return b
    return _mk('cat', w, tuple(out))


def cat(parts):
    "parts: nodes, LSB first"
    sl = []
    for p in parts:
        sl.extend(segs(p))
    return cat_segs(sl)


def zext(n, W):
    if W == n.w:
        return n
    assert W > n.w, (W, n.w)
    return cat_segs(segs(n) + [('c', 0, W - n.w)])


def sext(n, W):
    if W == n.w:
        return n
    assert W > n.w
    if isc(n):
        v = n.a
        if v >> (n.w - 1):
            v |= ((1 << W) - 1) ^ ((1 << n.w) - 1)
        return const(W, v)
    # top segment constant zero => plain zero extension
    top = segs(n)[-1]
    if top[0] == 'c' and (top[1] >> (top[2] - 1)) == 0:
        return zext(n, W)
    return _mk('sext', W, (n.id,))


def _slice_segs(sl, lo, ln):
    out = []
    pos = 0
    for s in sl:
        a, b = max(lo, pos), min(lo + ln, pos + s[2])
        if a < b:
            if s[0] == 'c':
                out.append(('c', (s[1] >> (a - pos)) & ((1 << (b - a)) - 1), b - a))
            else:
                out.append((s[0], s[1] + a - pos, b - a))
        pos += s[2]
    return out


_SLC = {}


def slc(n, lo, ln):
    "bits [lo, lo+ln) of n"
    assert ln > 0 and lo >= 0 and lo + ln <= n.w, (lo, ln, n.w)
    if lo == 0 and ln == n.w:
        return n
    key = (n.id, lo, ln)
    r = _SLC.get(key)
    if r is None:
        r = _slc(n, lo, ln)
        _SLC[key] = r
    return r


def _slc(n, lo, ln):
    if n.k == 'sext':
        b = node(n.a[0])
        if lo + ln <= b.w:
            return slc(b, lo, ln)
        if lo < b.w:
            return cat([slc(b, lo, b.w - lo), slc(n, b.w, lo + ln - b.w)])
        # only sign bits: keep opaque (rare)
        return _mk('cat', ln, ((n.id, lo, ln),))
    return cat_segs(_slice_segs(segs(n), lo, ln))


# ---- modular n-ary add ---------------------------------------------------------------------------
def _add_norm(w, terms, c):
    M = (1 << w) - 1
    acc = {}
    cc = [c & M]

    def put(n, k):
        k &= M
        if k == 0:
            return
        if n.k == 'const':
            cc[0] = (cc[0] + n.a * k) & M
            return
        if n.k == 'add' and n.w == w and len(n.a[0]) <= FLATTEN_MAX:
            for i, kk in n.a[0]:
                put(node(i), kk * k)
            cc[0] = (cc[0] + n.a[1] * k) & M
            return
        if n.k == 'cat' and len(n.a) == 2 and n.a[1][0] == 'c' and n.a[1][1] == 0 and n.a[0][0] != 'c':
            # zero-extension of a whole narrower sum that cannot wrap: the same sum at this width (flatten it)
            sg = n.a[0]
            inner = node(sg[0])
            if inner.k == 'add' and sg[1] == 0 and sg[2] == inner.w and len(inner.a[0]) <= FLATTEN_MAX and _exact_sum(inner):
                for i, kk in inner.a[0]:
                    put(zext(node(i), w), kk * k)
                cc[0] = (cc[0] + inner.a[1] * k) & M
                return
        acc[n.id] = (acc.get(n.id, 0) + k) & M
    for n, k in terms:
        put(n, k)
    ts = tuple(sorted((i, k) for i, k in acc.items() if k))
    if not ts:
        return const(w, cc[0])
    if w == 1:
        # arithmetic modulo 2 is xor
        return _nary('xor', 1, [node(i) for i, k in ts] + [const(1, cc[0])])
    if len(ts) == 1 and cc[0] == 0:
        k = ts[0][1]
        if k == 1:
            return node(ts[0][0])
        if k & (k - 1) == 0:
            j = k.bit_length() - 1          # a single term times 2^j is a shift: one representation only
            return cat_segs([('c', 0, j)] + _slice_segs(segs(node(ts[0][0])), 0, w - j))
    # a sum that cannot reach the top bit(s) - all coefficients non-negative and the syntactic upper bound small - has one
    # representation only: the sum at its own width, zero-extended (the same width the executor derives from a linear form)
    H = 1 << (w - 1)
    if all(k < H for _, k in ts):
        bound = cc[0]
        for i, k in ts:
            bound += k * ((1 << _eff_width(node(i))) - 1)
            if bound >= H:
                break
        if bound < H:
            w2 = bound.bit_length()
            inner = _add_norm(w2, [(slc(node(i), 0, w2), k) for i, k in ts], cc[0])
            return cat_segs(segs(inner) + [('c', 0, w - w2)])
    return _mk('add', w, (ts, cc[0]))


_EXACT = {}


def _exact_sum(n):
    "add node whose terms (non-negative coefficients) cannot reach 2^w: its value is the unbounded integer sum"
    r = _EXACT.get(n.id)
    if r is None:
        H = 1 << (n.w - 1)
        bound = n.a[1]
        r = True
        for i, k in n.a[0]:
            if k >= H:
                r = False
                break
            bound += k * ((1 << _eff_width(node(i))) - 1)
        r = r and bound < (1 << n.w)
        _EXACT[n.id] = r
    return r


def add(w, items, c=0):
    "items: list of (node of width w, integer coefficient)"
    for n, _ in items:
        assert n.w == w, (n, w)
    return _add_norm(w, items, c)


FLATTEN_MAX = 1 << 30
_NARROW = {}
_LZ = {}


def _eff_width(n):
    "width of n without syntactic leading zeros"
    if n.k == 'const':
        return n.a.bit_length()
    if n.k == 'cat':
        top = n.a[-1]
        if top[0] == 'c':
            return n.w - top[2] + top[1].bit_length()
    return n.w


def _tz(v, w):
    return w if v == 0 else min(w, (v & -v).bit_length() - 1)


def low_zeros(n):
    "number of low bits of n that are syntactically zero"
    r = _LZ.get(n.id)
    if r is not None:
        return r
    if n.k == 'const':
        r = _tz(n.a, n.w)
    elif n.k == 'cat':
        r = 0
        for sg in n.a:
            if sg[0] == 'c':
                t = _tz(sg[1], sg[2])
                r += t
                if t < sg[2]:
                    break
            else:
                b = node(sg[0])
                if sg[1] == 0:
                    r += min(low_zeros(b), sg[2])
                break
    elif n.k == 'add':
        r = _tz(n.a[1], n.w)
        for i, c in n.a[0]:
            r = min(r, low_zeros(node(i)) + _tz(c, n.w))
        r = min(r, n.w)
    else:
        r = 0
    _LZ[n.id] = r
    return r


def _shift_add(n, j):
    "n >> j for an add node all of whose summands are multiples of 2^j (exact), width n.w - j"
    w = n.w - j
    items = []
    for i, c in n.a[0]:
        t = node(i)
        a = min(_tz(c, n.w), j)
        rr = j - a
        c2 = c >> a
        if rr >= t.w:
            continue
        tt = slc(t, rr, t.w - rr) if rr else t
        tt = zext(tt, w) if tt.w < w else (slc(tt, 0, w) if tt.w > w else tt)
        items.append((tt, c2))
    return _add_norm(w, items, n.a[1] >> j)



def narrow_add(n, k):
    if k == n.w:
        return n
    r = _NARROW.get((n.id, k))
    if r is not None:
        return r
    r = _narrow_add(n, k)
    _NARROW[(n.id, k)] = r
    return r


def _narrow_add(n, k):
    ts = [(slc(node(i), 0, k), kk) for i, kk in n.a[0]]
    return _add_norm(k, ts, n.a[1] & ((1 << k) - 1))


# ---- bitwise ------------------------------------------------------------------------------------
def _runs(v, w):
    out = []
    i = 0
    while i < w:
        b = (v >> i) & 1
        j = i
        if b:
            x = (v >> i)
            # count trailing ones
            t = ((x + 1) & ~x).bit_length() - 1
            j = min(w, i + t)
        else:
            x = (v >> i)
            if x == 0:
                j = w
            else:
                j = min(w, i + ((x & -x).bit_length() - 1))
        out.append((b, j - i))
        i = j
    return out


def _expand(sl):
    out = []
    for s in sl:
        if s[0] == 'c':
            for bit, ln in _runs(s[1], s[2]):
                out.append(('c', ((1 << ln) - 1) if bit else 0, ln))
        else:
            out.append(s)
    return out


def _align(sa, sb):
    "split two segment lists at the union of their boundaries"
    out = []
    ia = ib = 0
    oa = ob = 0          # offset consumed inside current segment
    while ia < len(sa) and ib < len(sb):
        a, b = sa[ia], sb[ib]
        ra, rb = a[2] - oa, b[2] - ob
        ln = min(ra, rb)
        if a[0] == 'c':
            pa = ('c', (a[1] >> oa) & ((1 << ln) - 1), ln)
        else:
            pa = (a[0], a[1] + oa, ln)
        if b[0] == 'c':
            pb = ('c', (b[1] >> ob) & ((1 << ln) - 1), ln)
        else:
            pb = (b[0], b[1] + ob, ln)
        out.append((pa, pb))
        oa += ln; ob += ln
        if oa == a[2]:
            ia += 1; oa = 0
        if ob == b[2]:
            ib += 1; ob = 0
    return out


_OPS = {'and': lambda p, q: p & q, 'or': lambda p, q: p | q, 'xor': lambda p, q: p ^ q}


def bitop(kind, a, b):
    assert a.w == b.w, (kind, a, b)
    w = a.w
    if a is b:
        return a if kind in ('and', 'or') else const(w, 0)
    if isc(a) and isc(b):
        return const(w, _OPS[kind](a.a, b.a))
    pieces = []
    ok = True
    for pa, pb in _align(_expand(segs(a)), _expand(segs(b))):
        ln = pa[2]
        full = (1 << ln) - 1
        ca = pa[1] if pa[0] == 'c' else None
        cb = pb[1] if pb[0] == 'c' else None
        if ca is not None and cb is not None:
            pieces.append(('c', _OPS[kind](ca, cb), ln))
            continue
        done = False
        for cx, other in ((ca, pb), (cb, pa)):
            if cx is None:
                continue
            if cx == 0:
                pieces.append(('c', 0, ln) if kind == 'and' else other); done = True; break
            if cx == full and kind == 'and':
                pieces.append(other); done = True; break
            if cx == full and kind == 'or':
                pieces.append(('c', full, ln)); done = True; break
        if not done:
            if pa == pb:
                pieces.append(pa if kind != 'xor' else ('c', 0, ln))
                continue
            ok = False
            break
    if ok:
        return cat_segs(pieces)
    return _nary(kind, w, [a, b])


def _nary(kind, w, args):
    items = []
    op = _OPS[kind]
    full = (1 << w) - 1
    c = [{'and': full, 'or': 0, 'xor': 0}[kind]]

    def put(n):
        if n.k == kind:
            for i in n.a[0]:
                put(node(i))
            c[0] = op(c[0], n.a[1])
        elif n.k == 'const':
            c[0] = op(c[0], n.a)
        else:
            items.append(n.id)
    for x in args:
        put(x)
    if kind == 'xor':
        cnt = {}
        for i in items:
            cnt[i] = cnt.get(i, 0) ^ 1
        ids = sorted(i for i, v in cnt.items() if v)
    else:
        ids = sorted(set(items))
    cv = c[0]
    if kind == 'and' and cv == 0:
        return const(w, 0)
    if kind == 'or' and cv == full:
        return const(w, full)
    if not ids:
        return const(w, cv)
    ident = {'and': full, 'or': 0, 'xor': 0}[kind]
    if len(ids) == 1 and cv == ident:
        return node(ids[0])
    return _mk(kind, w, (tuple(ids), cv))


def _slice_bitop(b, lo, ln):
    "slice of an n-ary bitwise node = the operator applied to the slices"
    kind = b.k
    r = const(ln, (b.a[1] >> lo) & ((1 << ln) - 1))
    first = True
    acc = None
    for i in b.a[0]:
        p = slc(node(i), lo, ln)
        acc = p if acc is None else bitop(kind, acc, p)
    ident = {'and': (1 << b.w) - 1, 'or': 0, 'xor': 0}[kind]
    if b.a[1] != ident:
        acc = bitop(kind, acc, r)
    return acc


def bnot(a):
    return bitop('xor', a, const(a.w, (1 << a.w) - 1))


def shl(a, n):
    "widening shift: result width a.w+n"
    return a if n == 0 else cat_segs([('c', 0, n)] + segs(a))


def rotl(a, n):
    n %= a.w
    if n == 0:
        return a
    return cat([slc(a, a.w - n, n), slc(a, 0, a.w - n)])


def ite(c, a, b):
    assert c.w == 1 and a.w == b.w, (c, a, b)
    if a is b:
        return a
    if isc(c):
        return a if c.a else b
    if a.w == 1 and isc(a) and isc(b):
        return c if a.a == 1 else bnot(c)
    d = bitop('xor', a, b)
    if isc(d):
        # the arms differ by a constant K: ite(c, b^K, b) = b ^ (K masked by c)  -- pure wiring, no mux
        return bitop('xor', b, mask_by_bit(c, d.a, a.w))
    return _mk('ite', a.w, (c.id, a.id, b.id))


def mask_by_bit(c, K, w):
    "w-bit value whose bit j is c (a 1-bit node) where K has a 1 and 0 elsewhere"
    sl = []
    for j in range(w):
        sl.append((c.id, 0, 1) if (K >> j) & 1 else ('c', 0, 1))
    return cat_segs(sl)


def mul(a, b):
    assert a.w == b.w
    if isc(a) and isc(b):
        return const(a.w, a.a * b.a)
    if isc(a):
        return add(a.w, [(b, a.a)])
    if isc(b):
        return add(a.w, [(a, b.a)])
    x, y = (a, b) if a.id <= b.id else (b, a)
    return _mk('mul', a.w, (x.id, y.id))


def urem(a, b):
    assert a.w == b.w
    if isc(a) and isc(b) and b.a:
        return const(a.w, a.a % b.a)
    return _mk('urem', a.w, (a.id, b.id))


def smod(a, b):
    "python-style modulo of two's complement a by (positive) b, both width w; result has the sign of b"
    assert a.w == b.w
    if isc(a) and isc(b) and b.a:
        return const(a.w, _sval(a) % _sval(b))
    return _mk('smod', a.w, (a.id, b.id))


def udiv(a, b):
    assert a.w == b.w
    if isc(a) and isc(b) and b.a:
        return const(a.w, a.a // b.a)
    return _mk('udiv', a.w, (a.id, b.id))


def _sval(n):
    v = n.a
    return v - (1 << n.w) if v >> (n.w - 1) else v


def cmp(kind, a, b):
    "kind in eq ult ule slt sle; 1-bit result"
    assert a.w == b.w, (kind, a, b)
    if a is b:
        return const(1, 1 if kind in ('eq', 'ule', 'sle') else 0)
    if isc(a) and isc(b):
        r = {'eq': a.a == b.a, 'ult': a.a < b.a, 'ule': a.a <= b.a,
             'slt': _sval(a) < _sval(b), 'sle': _sval(a) <= _sval(b)}[kind]
        return const(1, int(r))
    if kind == 'eq':
        if a.w == 1:
            return bnot(bitop('xor', a, b))
        if a.id > b.id:
            a, b = b, a
    return _mk(kind, 1, (a.id, b.id))


def band(a, b):
    return bitop('and', a, b)


def bor(a, b):
    return bitop('or', a, b)


# ---- GF(2) bit-level normal form ---------------------------------------------------------------------
_GF2 = {}


def gf2_bits(n):
    """per bit of n: (frozenset of atoms, constant bit); atoms are (node id, bit) of sub-terms that are not GF(2)-linear
    wiring (variables, sums, ands, UFs ...).  xor / concatenation / slicing / constant masks are linear and dissolve."""
    r = _GF2.get(n.id)
    if r is not None:
        return r
    k = n.k
    if k == 'const':
        r = tuple((frozenset(), (n.a >> j) & 1) for j in range(n.w))
    elif k == 'cat':
        out = []
        for sg in n.a:
            if sg[0] == 'c':
                out.extend((frozenset(), (sg[1] >> j) & 1) for j in range(sg[2]))
            else:
                out.extend(gf2_bits(node(sg[0]))[sg[1]:sg[1] + sg[2]])
        r = tuple(out)
    elif k == 'xor':
        acc = [[set(), (n.a[1] >> j) & 1] for j in range(n.w)]
        for i in n.a[0]:
            for j, (st, cb) in enumerate(gf2_bits(node(i))):
                acc[j][0] ^= st
                acc[j][1] ^= cb
        r = tuple((frozenset(st), cb) for st, cb in acc)
    elif k == 'add' and _carry_free(n):
        # power-of-two coefficients with pairwise disjoint bit supports: no carries, the sum is an xor of shifted terms
        acc = [[set(), (n.a[1] >> j) & 1] for j in range(n.w)]
        for i, c in n.a[0]:
            sh = c.bit_length() - 1
            for j, (st, cb) in enumerate(gf2_bits(node(i))):
                if j + sh < n.w:
                    acc[j + sh][0] ^= st
                    acc[j + sh][1] ^= cb
        r = tuple((frozenset(st), cb) for st, cb in acc)
    else:
        r = tuple((frozenset([(n.id, j)]), 0) for j in range(n.w))
    _GF2[n.id] = r
    return r


def _carry_free(n):
    M = (1 << n.w) - 1
    occ = n.a[1]
    for i, c in n.a[0]:
        if c & (c - 1):
            return False
        t = node(i)
        j = c.bit_length() - 1
        sup = (((1 << _eff_width(t)) - 1) << j) & M
        lz = low_zeros(t)
        if lz:
            sup &= ~((1 << (j + lz)) - 1)
        if sup & occ:
            return False
        occ |= sup
    return True


def gf2_canon(n):
    "rebuild n from its GF(2) normal form (deterministic: equal linear functions give the identical node)"
    bits = gf2_bits(n)
    if all(len(st) == 1 and cb == 0 and next(iter(st)) == (n.id, j) for j, (st, cb) in enumerate(bits)):
        return n
    sl = []
    for st, cb in bits:
        if not st:
            sl.append(('c', cb, 1))
            continue
        atoms = sorted(st)
        if len(atoms) == 1 and cb == 0:
            sl.append((atoms[0][0], atoms[0][1], 1))
            continue
        b = _nary('xor', 1, [slc(node(i), j, 1) for i, j in atoms] + [const(1, cb)])
        sl.extend(segs(b))
    return cat_segs(sl)


# ---- traversal --------------------------------------------------------------------------------------
def children(n):
    k = n.k
    if k in ('const', 'var'):
        return ()
    if k == 'uf':
        return n.a[1:]
    if k == 'cat':
        return tuple(s[0] for s in n.a if s[0] != 'c')
    if k == 'add':
        return tuple(i for i, _ in n.a[0])
    if k in ('and', 'or', 'xor'):
        return n.a[0]
    return n.a


def reachable(roots):
    "ids of all nodes reachable from roots, ascending (children before parents)"
    seen = set()
    st = [r.id for r in roots]
    while st:
        i = st.pop()
        if i in seen:
            continue
        seen.add(i)
        for c in children(_NODES[i]):
            if c not in seen:
                st.append(c)
    return sorted(seen)


def free_vars(roots):
    return sorted(set((_NODES[i].a, _NODES[i].w) for i in reachable(roots) if _NODES[i].k == 'var'))


def uf_apps(roots):
    return [_NODES[i] for i in reachable(roots) if _NODES[i].k == 'uf']


# ---- concrete evaluation (translator validation, counterexample candidates) -------------------------
def evaluate(roots, env, ufs=None):
    """evaluate nodes under env: {var name: int}; ufs: {fname: python callable over ints}.
    returns {id: value}"""
    val = {}
    for i in reachable(roots):
        n = _NODES[i]
        k = n.k
        M = (1 << n.w) - 1
        if k == 'const':
            v = n.a
        elif k == 'var':
            v = env[n.a] & M
        elif k == 'uf':
            f = ufs[n.a[0]]
            v = f(*[val[j] for j in n.a[1:]]) & M
        elif k == 'cat':
            v = 0
            pos = 0
            for s in n.a:
                if s[0] == 'c':
                    v |= s[1] << pos
                else:
                    v |= ((val[s[0]] >> s[1]) & ((1 << s[2]) - 1)) << pos
                pos += s[2]
        elif k == 'add':
            v = n.a[1]
            for j, kk in n.a[0]:
                v += val[j] * kk
            v &= M
        elif k in ('and', 'or', 'xor'):
            op = _OPS[k]
            v = n.a[1]
            for j in n.a[0]:
                v = op(v, val[j])
        elif k == 'ite':
            v = val[n.a[1]] if val[n.a[0]] else val[n.a[2]]
        elif k == 'mul':
            v = (val[n.a[0]] * val[n.a[1]]) & M
        elif k == 'urem':
            d = val[n.a[1]]
            v = val[n.a[0]] % d if d else val[n.a[0]]
        elif k == 'udiv':
            d = val[n.a[1]]
            v = val[n.a[0]] // d if d else M
        elif k == 'smod':
            x, y = val[n.a[0]], val[n.a[1]]
            if x >> (n.w - 1): x -= 1 << n.w
            if y >> (n.w - 1): y -= 1 << n.w
            v = (x % y) & M if y else x & M
        elif k in ('eq', 'ult', 'ule', 'slt', 'sle'):
            x, y = val[n.a[0]], val[n.a[1]]
            if k in ('slt', 'sle'):
                w = _NODES[n.a[0]].w
                if x >> (w - 1): x -= 1 << w
                if y >> (w - 1): y -= 1 << w
            v = int({'eq': x == y, 'ult': x < y, 'ule': x <= y, 'slt': x < y, 'sle': x <= y}[k])
        elif k == 'sext':
            b = _NODES[n.a[0]]
            v = val[b.id]
            if v >> (b.w - 1):
                v |= M ^ ((1 << b.w) - 1)
        else:
            raise NotImplementedError(k)
        val[i] = v
    return val


def eval1(n, env, ufs=None):
    return evaluate([n], env, ufs)[n.id]


# ---- lowering to z3 --------------------------------------------------------------------------------
UF = {}
RAW = False      # when True, cat/add are lowered in the most naive way (used by the IR rule lemmas)


def _uf_decl(name, arg_w, w):
    key = (name, tuple(arg_w), w)
    f = UF.get(key)
    if f is None:
        f = z3.Function('%s' % name, *([z3.BitVecSort(x) for x in arg_w] + [z3.BitVecSort(w)]))
        UF[key] = f
    return f


def lower(root):
    if root._z is not None:
        return root._z
    for i in reachable([root]):
        n = _NODES[i]
        if n._z is not None:
            continue
        k = n.k
        L = lambda j: _NODES[j]._z
        if k == 'const':
            z = z3.BitVecVal(n.a, n.w)
        elif k == 'var':
            z = z3.BitVec(n.a, n.w)
        elif k == 'uf':
            args = [L(j) for j in n.a[1:]]
            z = _uf_decl(n.a[0], [x.size() for x in args], n.w)(*args)
        elif k == 'cat':
            ps = []
            for s in n.a:
                if s[0] == 'c':
                    ps.append(z3.BitVecVal(s[1], s[2]))
                else:
                    b = L(s[0])
                    ps.append(b if (s[1] == 0 and s[2] == b.size()) else z3.Extract(s[1] + s[2] - 1, s[1], b))
            z = z3.Concat(*ps[::-1]) if len(ps) > 1 else ps[0]
        elif k == 'add':
            z = z3.BitVecVal(n.a[1], n.w) if n.a[1] else None
            for j, kk in n.a[0]:
                t = L(j)
                if kk == (1 << n.w) - 1 and z is not None:
                    z = z - t
                    continue
                if kk != 1:
                    t = t * z3.BitVecVal(kk, n.w)
                z = t if z is None else z + t
        elif k in ('and', 'or', 'xor'):
            f = _OPS[k]
            ident = {'and': (1 << n.w) - 1, 'or': 0, 'xor': 0}[k]
            z = z3.BitVecVal(n.a[1], n.w) if n.a[1] != ident else None
            for j in n.a[0]:
                t = L(j)
                z = t if z is None else f(z, t)
        elif k == 'ite':
            z = z3.If(L(n.a[0]) == z3.BitVecVal(1, 1), L(n.a[1]), L(n.a[2]))
        elif k == 'mul':
            z = L(n.a[0]) * L(n.a[1])
        elif k == 'urem':
            z = z3.URem(L(n.a[0]), L(n.a[1]))
        elif k == 'udiv':
            z = z3.UDiv(L(n.a[0]), L(n.a[1]))
        elif k == 'smod':
            z = L(n.a[0]) % L(n.a[1])
        elif k in ('ult', 'ule', 'eq', 'slt', 'sle'):
            x, y = L(n.a[0]), L(n.a[1])
            c = {'ult': z3.ULT, 'ule': z3.ULE, 'eq': lambda p, q: p == q,
                 'slt': lambda p, q: p < q, 'sle': lambda p, q: p <= q}[k](x, y)
            z = z3.If(c, z3.BitVecVal(1, 1), z3.BitVecVal(0, 1))
        elif k == 'sext':
            b = L(n.a[0])
            z = z3.SignExt(n.w - b.size(), b)
        else:
            raise NotImplementedError(k)
        n._z = z
    return root._z


def lower_bool(n):
    "1-bit node as z3 Bool"
    assert n.w == 1
    if isc(n):
        return z3.BoolVal(bool(n.a))
    if n.k in ('ult', 'ule', 'eq', 'slt', 'sle'):
        x, y = lower(_NODES[n.a[0]]), lower(_NODES[n.a[1]])
        return {'ult': z3.ULT, 'ule': z3.ULE, 'eq': lambda p, q: p == q,
                'slt': lambda p, q: p < q, 'sle': lambda p, q: p <= q}[n.k](x, y)
    return lower(n) == z3.BitVecVal(1, 1)


def describe(n, depth=3):
    "short human-readable rendering (for evidence samples)"
    if n.k == 'const':
        return '0x%x:%d' % (n.a, n.w)
    if n.k == 'var':
        return '%s:%d' % (n.a, n.w)
    if depth == 0:
        return '%s/%d#%d' % (n.k, n.w, n.id)
    if n.k == 'cat':
        ps = []
        for s in n.a[:4]:
            ps.append('0x%x:%d' % (s[1], s[2]) if s[0] == 'c' else '%s[%d+:%d]' % (describe(node(s[0]), depth - 1), s[1], s[2]))
        return 'cat(%s%s)' % (','.join(ps), ',...' if len(n.a) > 4 else '')
    if n.k == 'uf':
        return '%s(%s)' % (n.a[0], ','.join(describe(node(i), depth - 1) for i in n.a[1:4]))
    ch = children(n)
    return '%s/%d(%s%s)' % (n.k, n.w, ','.join(describe(node(i), depth - 1) for i in ch[:3]), ',...' if len(ch) > 3 else '')
